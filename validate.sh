#!/bin/sh
# validates MANIFEST.json and all evidence files against the schemas (tooling venv has jsonschema)
python3-vt - <<'PY'
import json,jsonschema,glob
jsonschema.validate(json.load(open('/verif/MANIFEST.json')), json.load(open('/root/.vp/MANIFEST.schema.json')))
s=json.load(open('/root/.vp/EVIDENCE.schema.json'))
for f in sorted(glob.glob('/verif/evidence/*.json')):
    jsonschema.validate(json.load(open(f)), s)
    print('ok', f)
print('manifest ok')
PY
