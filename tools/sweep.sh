#!/bin/bash
# usage: sweep.sh <tier> <seed...>   runs every check on the current tree and summarises exit codes
tier=$1; shift
cd /verif
for s in "$@"; do
  for p in C01 C02 C03 C04 C05 C06 C07 C08 C09 C10 C11 C12 C13 C14 C15 C16 C17 C18 C19 C20; do
    out=$(VERIF_SEED=$s ./check $p --tier $tier 2>&1); rc=$?
    echo "seed=$s $p rc=$rc $(echo "$out" | tail -1 | cut -c1-160)"
    if [ $rc -ne 0 ]; then echo "$out" | grep -A2 "^VIOLATION\|HARNESS" | head -12; fi
  done
done
