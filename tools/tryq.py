#!/usr/bin/python3
"""dev aid: tools/tryq.py [--pretty] 'query' ...  -> runs queries against the catalogue model (vp/queries.py)"""
import sys, json, os
sys.path.insert(0, os.path.dirname(os.path.dirname(os.path.abspath(__file__))))
from vp import queries as Q
from vp.runner import Case, Step, run_cases, crash_kind, crash_site
args = sys.argv[1:]
pretty = "--pretty" in args
args = [a for a in args if a != "--pretty"]
for q in args:
    for v in ("asan", "asan-assert"):
        if pretty:
            c = Case("t", [Step("part", 0, 1, "S_PROPERTY", "pretty", q)])
        else:
            c = Case("t", [Step("parse_doc", 0, "xml_buffer", 1, 0, Q.MODEL), Step("query", 0, "w", q)])
        r = run_cases([c], variant=v)[c.id]
        if r["status"] != "ok":
            print(v, "CRASH", crash_kind(r), crash_site(r["stderr"]))
        else:
            st = r["steps"][-1]
            print(v, "ok", json.dumps(st)[:400])
