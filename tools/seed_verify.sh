#!/bin/bash
# usage: seed_verify.sh <worktree> <A|B>   - confirms: tests pass with the change; demo fails with / passes without
wt=$1; x=$2; d=$wt/seeded_out/$x
cd $wt || exit 2
git checkout -q -- . 2>/dev/null
git status --short | grep -v "seeded_out\|_build" && { echo "worktree not clean"; }
cmake --build _build > /dev/null 2>&1
bash $d/demo.sh > /tmp/demo_clean.log 2>&1; rc_clean=$?
git apply $d/patch.diff || { echo "PATCH DOES NOT APPLY"; exit 1; }
cmake --build _build > /tmp/seed_build.log 2>&1 || { echo "BUILD FAILS"; git checkout -q -- .; exit 1; }
ctest --test-dir _build -j8 > /tmp/seed_ctest.log 2>&1; rc_test=$?
bash $d/demo.sh > /tmp/demo_mut.log 2>&1; rc_mut=$?
git checkout -q -- .
cmake --build _build > /dev/null 2>&1
echo "clean-demo-rc=$rc_clean mutated-ctest-rc=$rc_test mutated-demo-rc=$rc_mut"
tail -2 /tmp/demo_clean.log; tail -2 /tmp/demo_mut.log
