#!/usr/bin/python3
"""Development aid, not a check: which lines of /repo/src the monitored workloads actually reach.

usage: tools/coverage.py [Cxx ...]      (default: every property, quick tier)
Builds the gcov-instrumented variant "cov" of the current tree, runs the named checks with VERIF_COV=1 (same
generators and cases; the verdicts of those runs are ignored and their evidence is written to a scratch directory),
then prints per-file line coverage and the functions that were never entered.  Results go to /verif/.work/coverage.txt.
"""
import glob
import gzip
import json
import os
import subprocess
import sys

sys.path.insert(0, os.path.dirname(os.path.dirname(os.path.abspath(__file__))))
from vp import build  # noqa: E402

props = sys.argv[1:] or ["C%02d" % i for i in range(1, 21)]
lib = build.build_lib("cov")
obj = lib + ".obj"
for f in glob.glob(os.path.join(obj, "*.gcda")):
    os.unlink(f)
env = dict(os.environ, VERIF_COV="1", VERIF_EVIDENCE_DIR=os.path.join(build.VERIF, ".work", "cov-evidence"))
for p in props:
    r = subprocess.run([os.path.join(build.VERIF, "check"), p, "--tier", "quick"], env=env, stdout=subprocess.PIPE,
                       stderr=subprocess.STDOUT, text=True)
    print(p, "rc=%d" % r.returncode, r.stdout.strip().split("\n")[-1][:150], flush=True)
out = []
tot = [0, 0]
never = []
missed = {}
for gcda in sorted(glob.glob(os.path.join(obj, "*.gcda"))):
    subprocess.run(["gcov", "--json-format", "-o", obj, gcda], cwd=obj, stdout=subprocess.DEVNULL, stderr=subprocess.DEVNULL)
for js in sorted(glob.glob(os.path.join(obj, "*.gcov.json.gz"))):
    d = json.load(gzip.open(js))
    for f in d["files"]:
        name = f["file"]
        if "/repo/" not in name and "parser.y" not in name and "lexer.l" not in name:
            continue
        if name.endswith(".h") and "/include/utap/" not in name:
            continue
        lines = f["lines"]
        n = len(lines)
        hit = sum(1 for ln in lines if ln["count"] > 0)
        if n == 0:
            continue
        out.append((os.path.basename(js).split(".gcov")[0], name, hit, n))
        if name.endswith((".cpp", ".y", ".l")):
            tot[0] += hit
            tot[1] += n
            for fn in f["functions"]:
                if fn["execution_count"] == 0:
                    never.append("%s:%d %s" % (os.path.basename(name), fn["start_line"], fn["demangled_name"][:110]))
            miss = sorted(set(ln["line_number"] for ln in lines if ln["count"] == 0) - set(ln["line_number"] for ln in lines if ln["count"] > 0))
            missed[os.path.basename(name)] = miss
    os.unlink(js)


def _ranges(xs):
    r = []
    for x in xs:
        if r and x == r[-1][1] + 1:
            r[-1][1] = x
        else:
            r.append([x, x])
    return " ".join("%d" % a if a == b else "%d-%d" % (a, b) for a, b in r)


with open(os.path.join(build.VERIF, ".work", "coverage_lines.txt"), "w") as fh:
    for k in sorted(missed):
        fh.write("%s: %s\n" % (k, _ranges(missed[k])))


with open(os.path.join(build.VERIF, ".work", "coverage.txt"), "w") as fh:
    for unit, name, hit, n in out:
        if n and name.endswith((".cpp", ".y", ".l")):
            fh.write("%-28s %6d / %6d  %5.1f%%\n" % (os.path.basename(name), hit, n, 100.0 * hit / n))
    fh.write("TOTAL %d / %d = %.1f%%\n" % (tot[0], tot[1], 100.0 * tot[0] / max(1, tot[1])))
    fh.write("\nfunctions never entered (%d):\n" % len(never))
    for x in sorted(set(never)):
        fh.write("  " + x + "\n")
print(open(os.path.join(build.VERIF, ".work", "coverage.txt")).read()[:6000])
