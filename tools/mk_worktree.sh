#!/bin/bash
# usage: mk_worktree.sh <name>  -- scratch worktree /tmp/wt_<name> of /repo HEAD with a configured+built _build (tests included)
n=$1; wt=/tmp/wt_$n
git -C /repo worktree add --detach $wt >/dev/null 2>&1 || { echo "worktree add failed"; exit 2; }
cd $wt && cmake -S . -B _build -G Ninja -DCMAKE_BUILD_TYPE=RelWithDebInfo -DUTAP_WITH_TESTS=ON \
  -DFETCHCONTENT_TRY_FIND_PACKAGE_MODE=ALWAYS -DFETCHCONTENT_UPDATES_DISCONNECTED=ON >/dev/null 2>&1 || { echo "configure failed"; exit 2; }
cmake --build _build >/dev/null 2>&1 || { echo "build failed"; exit 2; }
ctest --test-dir _build -j8 2>&1 | tail -2
mkdir -p $wt/seeded_out
echo "ready $wt"
