#!/bin/bash
# usage: seed_all.sh <Cxx> "<labels>" [check ids...]  -- verify + copy + detect the seeds of a finished agent worktree /tmp/wt_<Cxx>
p=$1; labels=$2; shift; shift; checks=${@:-$p}
for x in $labels; do wtp=${WT_PREFIX:-/tmp/wt_}
  [ -d ${wtp}$p/seeded_out/$x ] || { echo "no seed $p-$x"; continue; }
  echo "== verify $p-$x: $(/verif/tools/seed_verify.sh ${wtp}$p $x 2>&1 | head -1)"
  d=/verif/seeded/$p-$x; mkdir -p $d; cp ${wtp}$p/seeded_out/$x/* $d/ 2>/dev/null; rm -f $d/demo
  echo "-- detect $p-$x"; /verif/tools/seed_detect.sh $d $checks 2>&1 | tail -7
done
