#!/bin/bash
# usage: seed_all.sh <Cxx> [check ids...]  -- verify + copy + detect both seeds of a finished agent worktree /tmp/wt_<Cxx>
p=$1; shift; checks=${@:-$p}
for x in A B; do
  [ -d /tmp/wt_$p/seeded_out/$x ] || { echo "no seed $p-$x"; continue; }
  echo "== verify $p-$x: $(/verif/tools/seed_verify.sh /tmp/wt_$p $x 2>&1 | head -1)"
  d=/verif/seeded/$p-$x; mkdir -p $d; cp /tmp/wt_$p/seeded_out/$x/* $d/; rm -f $d/demo
  echo "-- detect $p-$x"; /verif/tools/seed_detect.sh $d $checks 2>&1 | tail -7
done
