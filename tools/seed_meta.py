"""Writes meta.json for every /verif/seeded/<id>/ from the table below and the agent's notes.md."""
import json, os, re
ROOT = "/verif/seeded"
# id: (first run detected?, check keys that fire now, what was strengthened (or None))
TABLE = {
 "C01-A": (False, "C01:step-budget-exceeded:dom:empty:query", "systematic DOM faults (every element as empty element / removed / duplicated / nested) on rich base documents incl. <queries>"),
 "C01-B": (False, "C01:crash:...:UTAP::TypeChecker::visitDocAfter", "channel priority declarations with 'default' at every position in generated models; declaration snippets inside whole models"),
 "C02-A": (True, "C02:int-literal-changed", None), "C02-B": (True, "C02:tree-differs:exp=XOR,got=AND|OR|BIT_OR|BIT_XOR,...", None),
 "C03-A": (False, "C03:reparse-differs:D, C03:query:reparse-differs:pr-ge/pr-le", "floating constants that need 17 significant digits (random bit patterns, 1-p probabilities)"),
 "C03-B": (True, "C03:reparse-differs:UNARY_MINUS(PREOP(_)) / UNARY_MINUS(UNARY_MINUS(..))", None),
 "C04-A": (True, "C04:valid-model-rejected:$Missing_initial_location", None), "C04-B": (True, "C04:instance:mapping-keys, C04:process:mapping-keys", None),
 "C05-A": (True, "C05:document-differs:/templates/[]/decl/frame/[]/type", None), "C05-B": (True, "C05:document-differs:/templates/[]/locations/[]/exprate, C05:xta:location:invariant", None),
 "C06-A": (True, "C06:error-attributed-elsewhere:unterminated-comment:label:*", None), "C06-B": (True, "C06:column-outside-line:label, C06:line-outside-element:label", None),
 "C07-A": (True, "C07:wrong-binding:E1g/E1s/E1u:want=T:P.select/1,...", None),
 "C07-B": (False, "C07:qualified-name:arguments-not-substituted", "types of process-qualified members through chains of partial instantiations (driver reports member types)"),
 "C08-A": (True, "C08:uid-null:location", None), "C08-B": (True, "C08:mapping-key-not-bound-param:instance/process", None),
 "C10-A": (True, "C10:nonconvex-accepted:guard:OR(CLKD,*) ...", None), "C10-B": (True, "C10:nonconvex-accepted:*:EQ(CLK*,CLK*) ...", None),
 "C11-A": (True, "C11:write-accepted:array-size:*", None),
 "C11-B": (False, "C11:write-accepted:sum-body-in-function-return:*", "quantifier bodies inside contexts that themselves may write (update right-hand sides, function statements)"),
 "C12-A": (True, "C12:const-write-accepted:array-of-const-struct:* ...", None), "C12-B": (True, "C12:const-write-accepted:*:inline-if:(b ? h : X) = 1 ...", None),
 "C13-A": (False, "C13:mutable-dependence-accepted:free-parameter*:array-size-via-2..4-consts", "free parameters reaching an array size through chains of 2..4 local constants"),
 "C13-B": (False, "C13:mutable-dependence-accepted:*:rdlocalarr / rdnestedarr", "functions whose read of a mutable variable sits in local (array/struct) initialisers and other statement forms"),
 "C14-A": (True, "C14:type-asymmetric:inline-if", None), "C14-B": (True, "C14:ref-param-rejects-same-type:*:scalarA/scalarB", None),
 "C15-A": (False, "C15:result-depends-on-history:*", "units that leave the grammar by an exception of a throwing builder (PrettyPrinter) inside an unterminated comment"),
 "C15-B": (False, "C15:result-depends-on-history:*:/doc/globals/frame/type", "parses abandoned inside array declarators followed by multi-declarator array declarations"),
 "C16-A": (False, "C16:document-disturbed(analysed):*:T/locations/[]/inv", "type-level faults compared after static analysis (Document entry point), not only at builder level"),
 "C16-B": (False, "C16:diagnostic-in-other-block(analysed):*", "same: diagnostics of type-level faults checked for attribution"),
 "C17-A": (False, "C17:symbolic-reported-with:composed:*", "restricting feature composed with harmless locations/templates before and after it"),
 "C17-B": (False, "C17:stochastic-reported-with:channel:local-urgent-chan ...", "urgent (non-broadcast) channels as locals, arrays and typedefs"),
 "C18-A": (True, "C18:wrong-result:*", None), "C18-B": (True, "C18:wrong-result:&& / intersects", None),
 "C19-A": (True, "C19:equal-but-dump-differs, C19:equal-but-str-differs", None),
 "C19-B": (False, "C19:subst-bound-symbol-wrong", "substitution of quantifier-bound symbols (occurrence-count oracle)"),
 "C20-A": (True, "C20:label-guard", None), "C20-B": (True, "C20:init", None),
}
for sid, (first, keys, strengthened) in TABLE.items():
    d = os.path.join(ROOT, sid)
    if not os.path.isdir(d):
        continue
    notes = open(os.path.join(d, "notes.md")).read() if os.path.exists(os.path.join(d, "notes.md")) else ""
    meta = {
        "id": sid, "property": sid.split("-")[0],
        "origin": "independent sub-agent given only the property text and a scratch worktree of /repo",
        "needs_to_manifest": re.sub(r"\s+", " ", notes)[:1200],
        "confirmed": "tools/seed_verify.sh: with the patch the library builds and all 146 tests pass; demo.sh exits 1 with the patch and 0 without",
        "ran": "tools/seed_detect.sh %s %s  (git -C /repo apply patch.diff; ./check %s --tier quick; git -C /repo checkout -- .)" % (d, sid.split("-")[0], sid.split("-")[0]),
        "detected_on_first_run": first,
        "detected_now": True,
        "violation_keys": keys,
        "check_strengthened_with": strengthened,
    }
    json.dump(meta, open(os.path.join(d, "meta.json"), "w"), indent=1)
print("meta written for", len([s for s in TABLE if os.path.isdir(os.path.join(ROOT, s))]))
