#!/bin/bash
# usage: seed_matrix.sh [seed ids...]   runs every seeded change against the quick check of its own property (scratch
# worktree, /repo untouched) and records rc and violation keys in /verif/seeded/RESULTS.tsv
cd /verif
ids=${@:-$(ls seeded | grep -E '^C[0-9]+-[A-Z]$')}
for id in $ids; do
  p=${id%%-*}
  out=$(tools/seed_detect.sh /verif/seeded/$id $p 2>&1)
  rc=$(echo "$out" | grep -o "rc=[0-9]*" | head -1)
  keys=$(echo "$out" | grep "key=" | sed 's/^ *key=//; s/ count=.*//' | head -4 | tr '\n' ' ')
  echo -e "$id\t$rc\t$keys"
done
