#!/bin/bash
# usage: seed_detect.sh <seed dir under /verif/seeded> <Cxx> [more checks...]
# applies the seeded change to a scratch worktree of /repo's HEAD (VERIF_REPO points the checks at it; /repo itself
# stays untouched so that other work can go on), runs the quick checks, restores the worktree.
# With SEED_IN_REPO=1 the patch is applied to /repo itself instead (git apply ... git checkout -- .).
sd=$1; shift
if [ -n "$SEED_IN_REPO" ]; then wt=/repo; else
  wt=/tmp/wt_detect_$$
  git -C /repo worktree add --detach $wt >/dev/null 2>&1 || exit 2
  trap "git -C /repo worktree remove --force $wt" EXIT
fi
cd $wt || exit 2
git status --short | grep -v "_build" && { echo "$wt not clean"; exit 2; }
git apply $sd/patch.diff || { echo "patch does not apply"; exit 2; }
for c in "$@"; do
  out=$(cd /verif && VERIF_REPO=$wt VERIF_EVIDENCE_DIR=/verif/.work/seed-evidence timeout 3000 ./check $c --tier ${SEED_TIER:-quick} 2>&1); rc=$?
  echo "check=$c rc=$rc $(echo "$out" | grep -c '^VIOLATION') violation lines"
  echo "$out" | grep -A2 "^VIOLATION" | grep "key=" | cut -c1-220 | head -6
  echo "$out" | grep -E "HARNESS" | head -2
done
git checkout -- .
git status --short | grep -v "_build"
