#!/bin/bash
# usage: seed_detect.sh <seed dir under /verif/seeded> <Cxx> [more checks...]
# applies the seeded change to /repo, runs the quick checks, restores /repo.  Prints which checks fired.
sd=$1; shift
cd /repo || exit 2
git status --short | grep -v "_build" && { echo "/repo not clean"; exit 2; }
git apply $sd/patch.diff || { echo "patch does not apply"; exit 2; }
for c in "$@"; do
  out=$(cd /verif && timeout 3000 ./check $c --tier quick 2>&1); rc=$?
  echo "check=$c rc=$rc $(echo "$out" | grep -c '^VIOLATION') violation lines"
  echo "$out" | grep -A2 "^VIOLATION" | grep "key=" | cut -c1-220 | head -6
  echo "$out" | grep -E "HARNESS" | head -2
done
git checkout -- .
git status --short | grep -v "_build"
