#!/usr/bin/python3
"""dev aid: tools/try.py 'decl text' [--t 'template decl'] -> runs one model through the asan and asan-assert drivers"""
import sys, json, os
sys.path.insert(0, os.path.dirname(os.path.dirname(os.path.abspath(__file__))))
from vp import xmlgen
from vp.runner import Case, Step, run_cases, crash_kind, crash_site
args = sys.argv[1:]
tdecl = ""
if "--t" in args:
    i = args.index("--t"); tdecl = args[i + 1]; del args[i:i + 2]
for n, decl in enumerate(args):
    xml = xmlgen.simple_model(decl=decl, tdecl=tdecl)
    for v in ("asan", "asan-assert"):
        c = Case("t", [Step("parse_doc", 0, "xml_buffer", 1, 0, xml)])
        r = run_cases([c], variant=v)[c.id]
        if r["status"] != "ok":
            print(v, "CRASH", crash_kind(r), crash_site(r["stderr"]))
        else:
            st = r["steps"][-1]
            print(v, "ok exc=%s" % st.get("exc"), [e["msg"] for e in st.get("errors", [])][:8])
