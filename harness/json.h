// Minimal JSON emitter used by the harness (no parsing needed on the C++ side).
#pragma once
#include <cstdio>
#include <string>
#include <string_view>

namespace vj {
inline void esc(std::string& out, std::string_view s)
{
    out.push_back('"');
    for (unsigned char c : s) {
        switch (c) {
        case '"': out += "\\\""; break;
        case '\\': out += "\\\\"; break;
        case '\n': out += "\\n"; break;
        case '\r': out += "\\r"; break;
        case '\t': out += "\\t"; break;
        default:
            if (c < 0x20 || c >= 0x7f) {
                char b[8];
                snprintf(b, sizeof b, "\\u%04x", c);  // bytes are treated as Latin-1
                out += b;
            } else
                out.push_back((char)c);
        }
    }
    out.push_back('"');
}

// Incremental writer: W w; w.obj(); w.key("a").num(1); w.key("b").str("x"); w.end();
struct W
{
    std::string s;
    std::string stack;  // '{' or '['
    bool first = true;
    void sep()
    {
        if (!first)
            s.push_back(',');
        first = false;
    }
    W& obj()
    {
        sep();
        s.push_back('{');
        stack.push_back('{');
        first = true;
        return *this;
    }
    W& arr()
    {
        sep();
        s.push_back('[');
        stack.push_back('[');
        first = true;
        return *this;
    }
    W& end()
    {
        s.push_back(stack.back() == '{' ? '}' : ']');
        stack.pop_back();
        first = false;
        return *this;
    }
    W& key(std::string_view k)
    {
        sep();
        esc(s, k);
        s.push_back(':');
        first = true;
        return *this;
    }
    W& str(std::string_view v)
    {
        sep();
        esc(s, v);
        return *this;
    }
    W& num(long long v)
    {
        sep();
        s += std::to_string(v);
        return *this;
    }
    W& boolean(bool v)
    {
        sep();
        s += v ? "true" : "false";
        return *this;
    }
    W& null()
    {
        sep();
        s += "null";
        return *this;
    }
    W& raw(std::string_view v)
    {
        sep();
        s += v;
        return *this;
    }
};
}  // namespace vj
