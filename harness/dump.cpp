#include "dump.h"

#include <cinttypes>
#include <cstdio>
#include <cstring>
#include <set>

using namespace UTAP;
using namespace UTAP::Constants;

namespace vd {

static const char* const kind_names[] = {
#include "verif_kinds.inc"
};
static const int n_kind_names = sizeof(kind_names) / sizeof(kind_names[0]);

const char* kind_name(int k)
{
    if (k < 0 || k >= n_kind_names)
        return "?KIND";
    return kind_names[k];
}

// ------------------------------------------------------------------------------------------------
// symbol owners

void SymTab::add_frame(const frame_t& f, const std::string& label)
{
    if (f == frame_t())
        return;
    uint32_t n = f.get_size();
    for (uint32_t i = 0; i < n; ++i) {
        const symbol_t& s = f[i];
        if (owner.find(s) == owner.end())
            owner[s] = label;
    }
}

namespace {
struct FrameCollector : StatementVisitor
{
    SymTab& st;
    std::string prefix;
    int counter = 0;
    FrameCollector(SymTab& st, std::string p): st(st), prefix(std::move(p)) {}
    int32_t visitEmptyStatement(EmptyStatement*) override { return 0; }
    int32_t visitExprStatement(ExprStatement*) override { return 0; }
    int32_t visitAssertStatement(AssertStatement*) override { return 0; }
    int32_t visitForStatement(ForStatement* s) override
    {
        if (s->stat)
            s->stat->accept(this);
        return 0;
    }
    int32_t visitIterationStatement(IterationStatement* s) override
    {
        st.add_frame(s->get_frame(), prefix + "/it" + std::to_string(counter++));
        if (s->stat)
            s->stat->accept(this);
        return 0;
    }
    int32_t visitWhileStatement(WhileStatement* s) override
    {
        if (s->stat)
            s->stat->accept(this);
        return 0;
    }
    int32_t visitDoWhileStatement(DoWhileStatement* s) override
    {
        if (s->stat)
            s->stat->accept(this);
        return 0;
    }
    int32_t block(BlockStatement* s)
    {
        st.add_frame(s->get_frame(), prefix + "/b" + std::to_string(counter++));
        for (auto& sub : *s)
            if (sub)
                sub->accept(this);
        return 0;
    }
    int32_t visitBlockStatement(BlockStatement* s) override { return block(s); }
    int32_t visitSwitchStatement(SwitchStatement* s) override { return block(s); }
    int32_t visitCaseStatement(CaseStatement* s) override { return block(s); }
    int32_t visitDefaultStatement(DefaultStatement* s) override { return block(s); }
    int32_t visitIfStatement(IfStatement* s) override
    {
        if (s->trueCase)
            s->trueCase->accept(this);
        if (s->falseCase)
            s->falseCase->accept(this);
        return 0;
    }
    int32_t visitBreakStatement(BreakStatement*) override { return 0; }
    int32_t visitContinueStatement(ContinueStatement*) override { return 0; }
    int32_t visitReturnStatement(ReturnStatement*) override { return 0; }
};
}  // namespace

void SymTab::add_function(function_t& f, const std::string& prefix)
{
    if (!f.body)
        return;
    FrameCollector fc(*this, prefix + "F:" + f.uid.get_name());
    f.body->accept(&fc);
}

void SymTab::build(Document& doc)
{
    add_frame(doc.get_globals().frame, "global");
    for (auto& f : doc.get_globals().functions)
        add_function(f, "");
    auto do_templ = [&](template_t& t, const std::string& tag) {
        std::string tn = tag + t.uid.get_name();
        add_frame(t.parameters, tn + ".param");
        add_frame(t.template_set, tn + ".tset");
        add_frame(t.frame, tn + ".local");
        for (auto& f : t.functions)
            add_function(f, tn + ".");
        for (auto& e : t.edges)
            add_frame(e.select, tn + ".select/" + std::to_string(e.nr));
        for (auto& il : t.instances)
            add_frame(il.parameters, tn + ".iline.param");
    };
    for (auto& t : doc.get_templates())
        do_templ(t, "T:");
    for (auto* t : doc.get_dynamic_templates())
        if (t)
            do_templ(*t, "D:");
    // partial instances: their own (unbound) parameters
    const frame_t& g = doc.get_globals().frame;
    for (uint32_t i = 0; i < g.get_size(); ++i) {
        symbol_t s = g[i];
        type_t ty = s.get_type();
        if ((ty.get_kind() == INSTANCE || ty.get_kind() == LSC_INSTANCE) && s.get_data()) {
            auto* inst = static_cast<instance_t*>(s.get_data());
            add_frame(inst->parameters, "I:" + s.get_name() + ".param");
        }
    }
    for (auto& p : doc.get_processes())
        add_frame(p.parameters, "P:" + p.uid.get_name() + ".param");
}

// ------------------------------------------------------------------------------------------------
// expressions

std::string Dumper::ident(const symbol_t& s)
{
    if (s == symbol_t())
        return "<nosym>";
    for (size_t i = binders.size(); i-- > 0;)
        if (binders[i] == s)
            return s.get_name() + "@bound" + std::to_string(i);
    if (syms) {
        auto it = syms->owner.find(s);
        if (it != syms->owner.end())
            return s.get_name() + "@" + it->second;
    }
    return s.get_name() + "@?";
}

static void fmt_double(std::string& out, double d)
{
    char b[64];
    snprintf(b, sizeof b, "%a", d);
    out += b;
}

void Dumper::expr_rec(std::string& out, const expression_t& e, int depth)
{
    if (e.empty()) {
        out += "()";
        return;
    }
    if (depth > depth_limit) {
        out += "(...)";
        return;
    }
    kind_t k = e.get_kind();
    if (k == IDENTIFIER && type_depth == 0 && !replace.empty()) {
        auto it = replace.find(e.get_symbol());
        if (it != replace.end()) {
            out += it->second;
            return;
        }
    }
    out.push_back('(');
    out += kind_name(k);
    if (with_types) {
        out.push_back(':');
        out += kind_name(e.get_type().get_kind());
    }
    switch (k) {
    case IDENTIFIER:
        out.push_back(' ');
        out += ident(e.get_symbol());
        break;
    case CONSTANT: {
        type_t t = e.get_type();
        out.push_back(' ');
        if (t.is_double()) {
            out += "d ";
            fmt_double(out, e.get_double_value());
        } else if (t.is_string()) {
            out += "s ";
            vj::esc(out, e.get_string_value());
        } else if (t.is_integer()) {
            out += "i " + std::to_string(e.get_value());
        } else if (t.isBoolean()) {
            out += "b " + std::to_string(e.get_value());
        } else {
            out += "?";
            out += kind_name(t.get_kind());
        }
        break;
    }
    case DOT: {
        out += " #" + std::to_string(e.get_index());
        break;
    }
    case SYNC: {
        auto s = e.get_sync();
        out += (s == SYNC_BANG ? " !" : s == SYNC_QUE ? " ?" : " csp");
        break;
    }
    default: break;
    }
    size_t n = e.get_size();
    bool binds = (k == FORALL || k == EXISTS || k == SUM) && n == 2 && !e.get(0).empty() &&
                 e.get(0).get_kind() == IDENTIFIER;
    if (binds) {
        symbol_t b = e.get(0).get_symbol();
        out += " (bind " + b.get_name() + " " + type(b.get_type()) + ")";
        binders.push_back(b);
        out.push_back(' ');
        expr_rec(out, e.get(1), depth + 1);
        binders.pop_back();
    } else {
        for (size_t i = 0; i < n; ++i) {
            out.push_back(' ');
            expr_rec(out, e.get(i), depth + 1);
        }
    }
    if (field_names && k == DOT && n == 1 && !e.get(0).empty()) {
        // field name, resolved through the operand's type when that is a record or process
        type_t t = e.get(0).get_type();
        int32_t idx = e.get_index();
        if (!t.unknown() && (t.is_record() || t.is_process())) {
            type_t st = t.strip();
            if (idx >= 0 && (size_t)idx < st.size())
                out += " ." + st.get_label(idx);
            else if (idx == std::numeric_limits<int32_t>::max())
                out += " .location";
        }
    }
    out.push_back(')');
}

std::string Dumper::expr(const expression_t& e)
{
    std::string out;
    expr_rec(out, e, 0);
    return out;
}

std::string Dumper::type(const type_t& t, int depth)
{
    if (t == type_t())
        return "<notype>";
    if (depth > 24)
        return "<deep>";
    struct Guard
    {
        int& d;
        explicit Guard(int& d): d(d) { ++d; }
        ~Guard() { --d; }
    } guard(type_depth);
    kind_t k = t.get_kind();
    std::string out = "<";
    out += kind_name(k);
    if (k == PROCESS || k == INSTANCE || k == LSC_INSTANCE || k == PROCESS_SET) {
        // children are whole frames of the template; keep the dump finite and small
        out += " n=" + std::to_string(t.size()) + ">";
        return out;
    }
    if (!t.get_expression().empty()) {
        out.push_back(' ');
        out += expr(t.get_expression());
    }
    size_t n = t.size();
    for (size_t i = 0; i < n; ++i) {
        out.push_back(' ');
        const std::string& l = t.get_label(i);
        if (!l.empty())
            out += l + ":";
        out += type(t.get(i), depth + 1);
    }
    out.push_back('>');
    return out;
}

// ------------------------------------------------------------------------------------------------
// statements

namespace {
struct StmtDumper : StatementVisitor
{
    Dumper& d;
    std::string out;
    explicit StmtDumper(Dumper& d): d(d) {}
    void sub(Statement* s)
    {
        if (s)
            s->accept(this);
        else
            out += "(nullstmt)";
    }
    int32_t visitEmptyStatement(EmptyStatement*) override
    {
        out += "(empty)";
        return 0;
    }
    int32_t visitExprStatement(ExprStatement* s) override
    {
        out += "(expr " + d.expr(s->expr) + ")";
        return 0;
    }
    int32_t visitAssertStatement(AssertStatement* s) override
    {
        out += "(assert " + d.expr(s->expr) + ")";
        return 0;
    }
    int32_t visitForStatement(ForStatement* s) override
    {
        out += "(for " + d.expr(s->init) + " " + d.expr(s->cond) + " " + d.expr(s->step) + " ";
        sub(s->stat.get());
        out += ")";
        return 0;
    }
    int32_t visitIterationStatement(IterationStatement* s) override
    {
        out += "(iter " + s->symbol.get_name() + " " + d.type(s->symbol.get_type()) + " ";
        sub(s->stat.get());
        out += ")";
        return 0;
    }
    int32_t visitWhileStatement(WhileStatement* s) override
    {
        out += "(while " + d.expr(s->cond) + " ";
        sub(s->stat.get());
        out += ")";
        return 0;
    }
    int32_t visitDoWhileStatement(DoWhileStatement* s) override
    {
        out += "(do ";
        sub(s->stat.get());
        out += " " + d.expr(s->cond) + ")";
        return 0;
    }
    int32_t block(const char* tag, BlockStatement* s, const expression_t* cond)
    {
        out += "(";
        out += tag;
        if (cond)
            out += " " + d.expr(*cond);
        frame_t f = s->get_frame();
        for (uint32_t i = 0; i < f.get_size(); ++i) {
            symbol_t sym = f[i];
            out += " (sym " + sym.get_name() + " " + d.type(sym.get_type());
            // initialiser, when the symbol is a variable
            kind_t tk = sym.get_type().get_kind();
            if (tk != FUNCTION && tk != FUNCTION_EXTERNAL && tk != TYPEDEF && sym.get_data()) {
                auto* v = static_cast<variable_t*>(sym.get_data());
                if (!v->init.empty())
                    out += " = " + d.expr(v->init);
            }
            out += ")";
        }
        for (auto& st : *s) {
            out += " ";
            sub(st.get());
        }
        out += ")";
        return 0;
    }
    int32_t visitBlockStatement(BlockStatement* s) override { return block("block", s, nullptr); }
    int32_t visitSwitchStatement(SwitchStatement* s) override { return block("switch", s, &s->cond); }
    int32_t visitCaseStatement(CaseStatement* s) override { return block("case", s, &s->cond); }
    int32_t visitDefaultStatement(DefaultStatement* s) override { return block("default", s, nullptr); }
    int32_t visitIfStatement(IfStatement* s) override
    {
        out += "(if " + d.expr(s->cond) + " ";
        sub(s->trueCase.get());
        if (s->falseCase) {
            out += " ";
            sub(s->falseCase.get());
        }
        out += ")";
        return 0;
    }
    int32_t visitBreakStatement(BreakStatement*) override
    {
        out += "(break)";
        return 0;
    }
    int32_t visitContinueStatement(ContinueStatement*) override
    {
        out += "(continue)";
        return 0;
    }
    int32_t visitReturnStatement(ReturnStatement* s) override
    {
        out += "(return " + d.expr(s->value) + ")";
        return 0;
    }
};

struct ExprCollector : StatementVisitor
{
    std::vector<expression_t>& out;
    explicit ExprCollector(std::vector<expression_t>& o): out(o) {}
    void add(const expression_t& e)
    {
        if (!e.empty())
            out.push_back(e);
    }
    void sub(Statement* s)
    {
        if (s)
            s->accept(this);
    }
    int32_t visitEmptyStatement(EmptyStatement*) override { return 0; }
    int32_t visitExprStatement(ExprStatement* s) override
    {
        add(s->expr);
        return 0;
    }
    int32_t visitAssertStatement(AssertStatement* s) override
    {
        add(s->expr);
        return 0;
    }
    int32_t visitForStatement(ForStatement* s) override
    {
        add(s->init);
        add(s->cond);
        add(s->step);
        sub(s->stat.get());
        return 0;
    }
    int32_t visitIterationStatement(IterationStatement* s) override
    {
        sub(s->stat.get());
        return 0;
    }
    int32_t visitWhileStatement(WhileStatement* s) override
    {
        add(s->cond);
        sub(s->stat.get());
        return 0;
    }
    int32_t visitDoWhileStatement(DoWhileStatement* s) override
    {
        sub(s->stat.get());
        add(s->cond);
        return 0;
    }
    int32_t block(BlockStatement* s)
    {
        for (auto& st : *s)
            sub(st.get());
        return 0;
    }
    int32_t visitBlockStatement(BlockStatement* s) override { return block(s); }
    int32_t visitSwitchStatement(SwitchStatement* s) override
    {
        add(s->cond);
        return block(s);
    }
    int32_t visitCaseStatement(CaseStatement* s) override
    {
        add(s->cond);
        return block(s);
    }
    int32_t visitDefaultStatement(DefaultStatement* s) override { return block(s); }
    int32_t visitIfStatement(IfStatement* s) override
    {
        add(s->cond);
        sub(s->trueCase.get());
        sub(s->falseCase.get());
        return 0;
    }
    int32_t visitBreakStatement(BreakStatement*) override { return 0; }
    int32_t visitContinueStatement(ContinueStatement*) override { return 0; }
    int32_t visitReturnStatement(ReturnStatement* s) override
    {
        add(s->value);
        return 0;
    }
};
}  // namespace

std::string Dumper::stmt(Statement* s)
{
    StmtDumper sd(*this);
    sd.sub(s);
    return sd.out;
}

// ------------------------------------------------------------------------------------------------
// documents

static std::string safe_str(const expression_t& e)
{
    if (e.empty())
        return "";
    try {
        return e.str();
    } catch (const std::exception&) {
        return "<exc>";
    }
}

static void dump_frame(vj::W& w, Dumper& d, const frame_t& f)
{
    w.arr();
    if (!(f == frame_t())) {
        for (uint32_t i = 0; i < f.get_size(); ++i) {
            symbol_t s = f[i];
            w.obj();
            w.key("name").str(s.get_name());
            w.key("type").str(d.type(s.get_type()));
            w.end();
        }
    }
    w.end();
}

static void dump_symset(vj::W& w, Dumper& d, const std::set<symbol_t>& ss)
{
    std::set<std::string> names;
    for (auto& s : ss)
        names.insert(d.ident(s));
    w.arr();
    for (auto& n : names)
        w.str(n);
    w.end();
}

static void dump_decls(vj::W& w, Dumper& d, declarations_t& decl)
{
    w.obj();
    w.key("frame");
    dump_frame(w, d, decl.frame);
    w.key("vars").arr();
    for (auto& v : decl.variables) {
        w.obj();
        w.key("name").str(v.uid.get_name());
        w.key("type").str(d.type(v.uid.get_type()));
        w.key("init").str(d.expr(v.init));
        w.end();
    }
    w.end();
    w.key("funcs").arr();
    for (auto& f : decl.functions) {
        w.obj();
        w.key("name").str(f.uid.get_name());
        w.key("type").str(d.type(f.uid.get_type()));
        w.key("changes");
        dump_symset(w, d, f.changes);
        w.key("depends");
        dump_symset(w, d, f.depends);
        w.key("body").str(f.body ? d.stmt(f.body.get()) : std::string("(nobody)"));
        w.key("nlocals").num((long long)f.variables.size());
        w.end();
    }
    w.end();
    w.key("progress").arr();
    for (auto& p : decl.progress) {
        w.arr().str(d.expr(p.guard)).str(d.expr(p.measure)).end();
    }
    w.end();
    w.key("ngantt").num((long long)decl.ganttChart.size());
    w.key("niodecl").num((long long)decl.iodecl.size());
    w.end();
}

static void dump_instance_fields(vj::W& w, Dumper& d, instance_t& inst)
{
    w.key("name").str(inst.uid == symbol_t() ? std::string("<nouid>") : inst.uid.get_name());
    w.key("uidtype").str(inst.uid == symbol_t() ? std::string("") : d.type(inst.uid.get_type()));
    w.key("templ").str(inst.templ ? inst.templ->uid.get_name() : std::string("<null>"));
    w.key("params");
    dump_frame(w, d, inst.parameters);
    w.key("unbound").num((long long)inst.unbound);
    w.key("arguments").num((long long)inst.arguments);
    w.key("mapping").obj();
    {
        // by parameter name; duplicates (same name twice) are suffixed with their index in 'parameters'
        std::map<std::string, std::string> m;
        for (auto& kv : inst.mapping) {
            std::string key = kv.first.get_name();
            auto idx = inst.parameters == frame_t() ? std::optional<uint32_t>{} : inst.parameters.get_index_of(kv.first);
            key += idx ? "|" + std::to_string(*idx) : std::string("|?");
            m[key] = d.expr(kv.second);
        }
        for (auto& kv : m)
            w.key(kv.first).str(kv.second);
    }
    w.end();
    w.key("restricted");
    dump_symset(w, d, inst.restricted);
}

static void dump_template(vj::W& w, Dumper& d, template_t& t)
{
    w.obj();
    dump_instance_fields(w, d, t);
    w.key("is_TA").boolean(t.is_TA);
    w.key("dynamic").boolean(t.dynamic);
    w.key("is_defined").boolean(t.is_defined);
    w.key("instantiated").boolean(t.is_instantiated);
    w.key("lsc_type").str(t.type);
    w.key("lsc_mode").str(t.mode);
    w.key("decl");
    dump_decls(w, d, t);
    w.key("init");
    if (t.init == symbol_t())
        w.null();
    else
        w.str(t.init.get_name());
    w.key("locations").arr();
    for (auto& l : t.locations) {
        w.obj();
        w.key("nr").num(l.nr);
        w.key("name").str(l.uid.get_name());
        type_t lt = l.uid.get_type();
        w.key("urgent").boolean(lt.is(URGENT));
        w.key("committed").boolean(lt.is(COMMITTED));
        w.key("inv").str(d.expr(l.invariant));
        w.key("inv_str").str(safe_str(l.invariant));
        w.key("exprate").str(d.expr(l.exp_rate));
        w.key("exprate_str").str(safe_str(l.exp_rate));
        w.key("costrate").str(d.expr(l.cost_rate));
        w.end();
    }
    w.end();
    w.key("branchpoints").arr();
    for (auto& b : t.branchpoints) {
        w.obj();
        w.key("nr").num(b.bpNr);
        w.key("name").str(b.uid.get_name());
        w.end();
    }
    w.end();
    w.key("edges").arr();
    for (auto& e : t.edges) {
        w.obj();
        w.key("nr").num(e.nr);
        w.key("control").boolean(e.control);
        w.key("actname").str(e.actname);
        auto nm = [&](const char* k, location_t* l, branchpoint_t* b) {
            w.key(k);
            if (l && b)
                w.str("<both>");
            else if (l)
                w.str("L:" + l->uid.get_name());
            else if (b)
                w.str("B:" + b->uid.get_name());
            else
                w.null();
        };
        nm("src", e.src, e.srcb);
        nm("dst", e.dst, e.dstb);
        w.key("select");
        dump_frame(w, d, e.select);
        w.key("guard").str(d.expr(e.guard));
        w.key("sync").str(d.expr(e.sync));
        w.key("assign").str(d.expr(e.assign));
        w.key("prob").str(d.expr(e.prob));
        w.key("guard_str").str(safe_str(e.guard));
        w.key("sync_str").str(safe_str(e.sync));
        w.key("assign_str").str(safe_str(e.assign));
        w.key("prob_str").str(safe_str(e.prob));
        w.key("select_decl").arr();
        if (!(e.select == frame_t()))
            for (uint32_t i = 0; i < e.select.get_size(); ++i) {
                type_t st = e.select[i].get_type();
                if (st.get_kind() == CONSTANT && st.size() == 1)
                    st = st.get(0);  // select binders are implicitly constant
                std::string decl;
                try {
                    decl = st.declaration();
                } catch (const std::exception&) {
                    decl = "<exc>";
                }
                w.arr().str(e.select[i].get_name()).str(decl).end();
            }
        w.end();
        w.end();
    }
    w.end();
    w.key("lsc").obj();
    w.key("instances").num((long long)t.instances.size());
    w.key("messages").arr();
    for (auto& m : t.messages) {
        w.obj();
        w.key("nr").num(m.nr);
        w.key("loc").num(m.location);
        w.key("pch").boolean(m.is_in_prechart);
        w.key("src").num(m.src ? (long long)m.src->instance_nr : -1);
        w.key("dst").num(m.dst ? (long long)m.dst->instance_nr : -1);
        w.key("label").str(d.expr(m.label));
        w.end();
    }
    w.end();
    w.key("conditions").arr();
    for (auto& c : t.conditions) {
        w.obj();
        w.key("nr").num(c.nr);
        w.key("loc").num(c.location);
        w.key("hot").boolean(c.isHot);
        w.key("label").str(d.expr(c.label));
        w.key("anchors").num((long long)c.anchors.size());
        w.end();
    }
    w.end();
    w.key("updates").arr();
    for (auto& u : t.updates) {
        w.obj();
        w.key("nr").num(u.nr);
        w.key("loc").num(u.location);
        w.key("label").str(d.expr(u.label));
        w.end();
    }
    w.end();
    w.end();
    w.end();
}

void dump_document(vj::W& w, Document& doc)
{
    SymTab st;
    st.build(doc);
    Dumper d;
    d.syms = &st;
    w.key("doc").obj();
    w.key("globals");
    dump_decls(w, d, doc.get_globals());
    w.key("templates").arr();
    for (auto& t : doc.get_templates())
        dump_template(w, d, t);
    w.end();
    w.key("dyn_templates").arr();
    for (auto* t : doc.get_dynamic_templates())
        if (t)
            dump_template(w, d, *t);
    w.end();
    // partial / full instances registered in the global frame
    w.key("instances").arr();
    {
        const frame_t& g = doc.get_globals().frame;
        std::set<const void*> tset;
        for (auto& t : doc.get_templates())
            tset.insert(static_cast<instance_t*>(&t));
        for (uint32_t i = 0; i < g.get_size(); ++i) {
            symbol_t s = g[i];
            kind_t k = s.get_type().get_kind();
            if ((k == INSTANCE || k == LSC_INSTANCE) && s.get_data() && !tset.count(s.get_data())) {
                bool dyn = false;
                for (auto* t : doc.get_dynamic_templates())
                    if (static_cast<instance_t*>(t) == s.get_data())
                        dyn = true;
                if (dyn)
                    continue;
                w.obj();
                dump_instance_fields(w, d, *static_cast<instance_t*>(s.get_data()));
                w.end();
            }
        }
    }
    w.end();
    w.key("processes").arr();
    for (auto& p : doc.get_processes()) {
        w.obj();
        dump_instance_fields(w, d, p);
        w.key("priority").num(doc.get_proc_priority(p.uid.get_name().c_str()));
        w.end();
    }
    w.end();
    w.key("chan_priorities").arr();
    for (auto& cp : doc.get_chan_priorities()) {
        w.arr();
        w.str(d.expr(cp.head));
        for (auto& e : cp.tail) {
            w.str(std::string(1, e.first));
            w.str(d.expr(e.second));
        }
        w.end();
    }
    w.end();
    w.key("has_priorities").boolean(doc.has_priority_declaration());
    w.key("before_update").str(d.expr(doc.get_before_update()));
    w.key("after_update").str(d.expr(doc.get_after_update()));
    w.key("options").arr();
    for (auto& o : doc.get_options())
        w.arr().str(o.name).str(o.value).end();
    w.end();
    w.key("queries").arr();
    for (auto& q : doc.get_queries()) {
        w.obj();
        w.key("formula").str(q.formula);
        w.key("comment").str(q.comment);
        w.key("location").str(q.location);
        w.key("options").arr();
        for (auto& o : q.options)
            w.arr().str(o.name).str(o.value).end();
        w.end();
        w.key("expect").obj();
        w.key("type").num((int)q.expectation.value_type);
        w.key("status").num((int)q.expectation.status);
        w.key("value").str(q.expectation.value);
        w.key("resources").arr();
        for (auto& r : q.expectation.resources)
            w.arr().str(r.name).str(r.value).str(r.unit ? *r.unit : std::string("<none>")).end();
        w.end();
        w.end();
        w.end();
    }
    w.end();
    w.key("flags").obj();
    w.key("urgent_trans").boolean(doc.has_urgent_transition());
    w.key("strict_inv").boolean(doc.has_strict_invariants());
    w.key("stop_watch").boolean(doc.has_stop_watch());
    w.key("strict_low").boolean(doc.has_strict_lower_bound_on_controllable_edges());
    w.key("guard_recv_bcast").boolean(doc.has_clock_guard_recv_broadcast());
    w.key("sync_used").num(doc.get_sync_used());
    w.key("dynamic").boolean(doc.has_dynamic_templates());
    w.key("all_broadcast").boolean(doc.all_broadcast());
    w.end();
    w.end();
}

static void dump_errs(vj::W& w, const std::vector<UTAP::error_t>& es)
{
    w.arr();
    for (auto& e : es) {
        w.obj();
        w.key("msg").str(e.msg);
        w.key("ctx").str(e.context);
        w.key("path").str(e.start.path ? *e.start.path : std::string("<nullpath>"));
        w.key("epath").str(e.end.path ? *e.end.path : std::string("<nullpath>"));
        // line/column exactly as error_t::str() computes them: column = position - position of the line start
        w.key("line").num(e.start.line);
        w.key("col").num((long long)e.position.start - (long long)e.start.position);
        w.key("eline").num(e.end.line);
        w.key("ecol").num((long long)e.position.end - (long long)e.end.position);
        w.key("off").num(e.start.offset);
        w.key("ps").num(e.position.start);
        w.key("pe").num(e.position.end);
        w.end();
    }
    w.end();
}

void dump_diagnostics(vj::W& w, Document& doc)
{
    w.key("errors");
    dump_errs(w, doc.get_errors());
    w.key("warnings");
    dump_errs(w, doc.get_warnings());
    auto& m = doc.get_supported_methods();
    w.key("methods").arr().boolean(m.symbolic).boolean(m.stochastic).boolean(m.concrete).end();
}

void collect_expressions(Document& doc, std::vector<expression_t>& out)
{
    ExprCollector ec(out);
    auto decls = [&](declarations_t& d) {
        for (auto& v : d.variables)
            ec.add(v.init);
        for (auto& f : d.functions) {
            if (f.body)
                f.body->accept(&ec);
            for (auto& v : f.variables)
                ec.add(v.init);
        }
    };
    decls(doc.get_globals());
    for (auto& t : doc.get_templates()) {
        decls(t);
        for (auto& l : t.locations) {
            ec.add(l.invariant);
            ec.add(l.exp_rate);
            ec.add(l.cost_rate);
        }
        for (auto& e : t.edges) {
            ec.add(e.guard);
            ec.add(e.sync);
            ec.add(e.assign);
            ec.add(e.prob);
        }
    }
    for (auto& p : doc.get_processes())
        for (auto& kv : p.mapping)
            ec.add(kv.second);
}

}  // namespace vd
