// Canonical, read-only dump of libutap documents, expressions, types and statements through the public API.
#pragma once
#include "json.h"

#include "utap/utap.h"
#include "utap/statement.h"

#include <map>
#include <string>
#include <vector>

namespace vd {
const char* kind_name(int k);

/** Maps symbols to an owner label by identity; built from all frames reachable from a Document. */
struct SymTab
{
    std::map<UTAP::symbol_t, std::string> owner;
    void add_frame(const UTAP::frame_t& f, const std::string& label);
    void build(UTAP::Document& doc);
    void add_function(UTAP::function_t& f, const std::string& prefix);
};

struct Dumper
{
    SymTab* syms = nullptr;
    std::vector<UTAP::symbol_t> binders;  // enclosing quantifier binders (for alpha-equivalent naming)
    bool with_types = false;              // append the node's type kind after each node: (KIND:TYPEKIND ...)
    int depth_limit = 400;
    /** reference substitution used by the C19 monitor: identifier occurrences (outside types) of a key are dumped
     * as the mapped text instead */
    std::map<UTAP::symbol_t, std::string> replace;
    int type_depth = 0;
    bool field_names = true;  // append the field name of DOT nodes (resolved through the operand's type)

    std::string expr(const UTAP::expression_t& e);
    std::string type(const UTAP::type_t& t, int depth = 0);
    std::string stmt(UTAP::Statement* s);
    std::string ident(const UTAP::symbol_t& s);

private:
    void expr_rec(std::string& out, const UTAP::expression_t& e, int depth);
};

/** Appends the "doc": {...} object (key included) to w. */
void dump_document(vj::W& w, UTAP::Document& doc);
/** Appends "errors":[...], "warnings":[...] , "methods":[..] */
void dump_diagnostics(vj::W& w, UTAP::Document& doc);

/** Collect every expression reachable from the document (labels, initialisers, function bodies, mappings). */
void collect_expressions(UTAP::Document& doc, std::vector<UTAP::expression_t>& out);
}  // namespace vd
