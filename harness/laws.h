#pragma once
#include "json.h"

#include "utap/utap.h"

#include <string>
#include <vector>

namespace vl {
/** C19: algebraic laws of clone_deeper / subst / equal / get_size over every expression reachable from doc plus
 * the extra texts ("E:<expression>" parsed in the global scope, "Q:<query>" parsed with TigaPropertyBuilder). */
void run_laws(vj::W& w, UTAP::Document& doc, unsigned seed, int max_exprs, const std::vector<std::string>& extra);
}  // namespace vl
