// Logical clock for the `steps` build variant: every instrumented edge (-fsanitize-coverage=trace-pc) bumps a counter.
// This file itself must be compiled WITHOUT that flag.
#include <cstdlib>
#include <unistd.h>

static unsigned long long g_steps = 0;
static unsigned long long g_cap = ~0ULL;

extern "C" void __sanitizer_cov_trace_pc()
{
    if (++g_steps > g_cap) {
        static const char msg[] = "VERIF-STEP-BUDGET-EXCEEDED\n";
        (void)!write(2, msg, sizeof(msg) - 1);
        _exit(97);
    }
}

extern "C" unsigned long long verif_step_count() { return g_steps; }
extern "C" void verif_step_reset(unsigned long long cap)
{
    g_steps = 0;
    g_cap = cap;
}
