// C19: expression cloning, substitution and equality laws, checked on real parsed trees.
#include "laws.h"

#include "dump.h"

#include "utap/ExpressionBuilder.hpp"
#include "utap/property.h"

#include <cmath>
#include <random>
#include <set>

using namespace UTAP;
using namespace UTAP::Constants;

namespace vl {
namespace {

struct Ctx
{
    Document& doc;
    vd::SymTab st;
    vd::Dumper dm;
    std::mt19937 rng;
    std::vector<std::string> violations;
    std::map<std::string, long> counts;
    std::set<std::string> kinds_seen;
    explicit Ctx(Document& d, unsigned seed): doc(d), rng(seed)
    {
        st.build(d);
        dm.syms = &st;
        dm.field_names = false;  // substitution may replace a record operand by something else
    }
    void fail(const std::string& law, const std::string& detail)
    {
        if (violations.size() < 50)
            violations.push_back(law + "|" + detail);
    }
    void count(const std::string& law) { counts[law]++; }
    std::string D(const expression_t& e) { return dm.expr(e); }
};

void all_nodes(const expression_t& e, std::vector<expression_t>& out, int depth = 0)
{
    if (e.empty() || depth > 300)
        return;
    out.push_back(e);
    for (size_t i = 0; i < e.get_size(); ++i)
        all_nodes(e.get(i), out, depth + 1);
}

void free_symbols(const expression_t& e, std::set<symbol_t>& bound, std::set<symbol_t>& out, int depth = 0)
{
    if (e.empty() || depth > 300)
        return;
    kind_t k = e.get_kind();
    if (k == IDENTIFIER) {
        symbol_t s = e.get_symbol();
        if (!(s == symbol_t()) && !bound.count(s))
            out.insert(s);
        return;
    }
    if ((k == FORALL || k == EXISTS || k == SUM) && e.get_size() == 2 && !e.get(0).empty() &&
        e.get(0).get_kind() == IDENTIFIER) {
        symbol_t b = e.get(0).get_symbol();
        bool was = bound.count(b);
        bound.insert(b);
        free_symbols(e.get(1), bound, out, depth + 1);
        if (!was)
            bound.erase(b);
        return;
    }
    for (size_t i = 0; i < e.get_size(); ++i)
        free_symbols(e.get(i), bound, out, depth + 1);
}

std::string safe_str(const expression_t& e)
{
    try {
        return e.str();
    } catch (const std::exception& ex) {
        return std::string("<exc>");
    }
}

/** Path to a node: sequence of child indices from the root. */
using Path = std::vector<uint32_t>;
void all_paths(const expression_t& e, Path& cur, std::vector<Path>& out, int depth = 0)
{
    if (e.empty() || depth > 60)
        return;
    out.push_back(cur);
    for (size_t i = 0; i < e.get_size(); ++i) {
        cur.push_back((uint32_t)i);
        all_paths(e.get(i), cur, out, depth + 1);
        cur.pop_back();
    }
}

expression_t node_at(expression_t root, const Path& p)
{
    expression_t n = root;
    for (auto i : p)
        n = n.get(i);
    return n;
}

/** Replace the node at path p of (deep clone) root with repl; returns the new root. */
expression_t replace_at(expression_t root, const Path& p, expression_t repl)
{
    if (p.empty())
        return repl;
    expression_t n = root;
    for (size_t i = 0; i + 1 < p.size(); ++i)
        n = n.get(p[i]);
    n[p.back()] = repl;
    return root;
}

bool is_binder_slot(const expression_t& root, const Path& p)
{
    if (p.empty() || p.back() != 0)
        return false;
    Path pp(p.begin(), p.end() - 1);
    expression_t par = node_at(root, pp);
    kind_t k = par.get_kind();
    return k == FORALL || k == EXISTS || k == SUM;
}

const kind_t binary_swaps[][2] = {{PLUS, MINUS}, {MULT, DIV}, {AND, OR}, {LT, LE}, {GE, GT},
                                  {EQ, NEQ},     {MIN, MAX},  {BIT_AND, BIT_OR}, {ASSIGN, ASS_PLUS},
                                  {BIT_LSHIFT, BIT_RSHIFT}, {MOD, POW}, {BIT_XOR, XOR}, {ASS_MINUS, ASS_MULT}};
const kind_t unary_swaps[][2] = {{NOT, UNARY_MINUS}, {PRE_INCREMENT, PRE_DECREMENT}, {POST_INCREMENT, POST_DECREMENT},
                                 {AG, EF}, {AF, EG}, {SIN_F, COS_F}, {FABS_F, SQRT_F}};

bool swap_kind(kind_t k, kind_t& o, size_t arity)
{
    if (arity == 2)
        for (auto& p : binary_swaps) {
            if (p[0] == k) {
                o = p[1];
                return true;
            }
            if (p[1] == k) {
                o = p[0];
                return true;
            }
        }
    if (arity == 1)
        for (auto& p : unary_swaps) {
            if (p[0] == k) {
                o = p[1];
                return true;
            }
            if (p[1] == k) {
                o = p[0];
                return true;
            }
        }
    return false;
}

void laws_for(Ctx& c, const expression_t& e, const std::vector<symbol_t>& other_syms)
{
    const std::string de = c.D(e);
    const std::string se = safe_str(e);
    {
        std::vector<expression_t> ns;
        all_nodes(e, ns);
        for (auto& n : ns) {
            c.kinds_seen.insert(vd::kind_name(n.get_kind()));
            c.count("size");
#ifdef UTAP_VERIF
            if (n.verif_sub_size() != n.get_size())
                c.fail("size-ne-children", std::string(vd::kind_name(n.get_kind())) + " get_size=" +
                                               std::to_string(n.get_size()) +
                                               " stored=" + std::to_string(n.verif_sub_size()));
#endif
        }
    }
    // ---- clone
    expression_t d = e.clone_deeper();
    c.count("clone");
    if (c.D(d) != de)
        c.fail("clone-dump-differs", de);
    if (!e.equal(d) || !d.equal(e))
        c.fail("clone-not-equal", de);
    if (safe_str(d) != se)
        c.fail("clone-str-differs", de);
    {
        std::vector<expression_t> a, b;
        all_nodes(e, a);
        all_nodes(d, b);
        std::set<expression_t> sa(a.begin(), a.end());
        for (auto& n : b)
            if (sa.count(n)) {
                c.fail("clone-shares-node", std::string(vd::kind_name(n.get_kind())) + " in " + de);
                break;
            }
        if (a.size() != b.size())
            c.fail("clone-node-count", de);
    }
    // ---- independence: mutate the clone, the original must not move (and the other way round on a second pair)
    {
        std::vector<Path> paths;
        Path cur;
        all_paths(d, cur, paths);
        for (int round = 0; round < 3 && !paths.empty(); ++round) {
            expression_t a = e.clone_deeper(), b = a.clone_deeper();
            const Path& p = paths[c.rng() % paths.size()];
            if (p.empty() || is_binder_slot(a, p))
                continue;
            a = replace_at(a, p, expression_t::create_constant(424242));
            node_at(a, Path(p.begin(), p.end() - 1)).set_type(type_t::create_primitive(Constants::DOUBLE));
            c.count("independence");
            if (c.D(b) != de)
                c.fail("clone-not-independent(a->b)", de);
            if (c.D(e) != de || safe_str(e) != se)
                c.fail("clone-not-independent(a->e)", de);
            expression_t b2 = b.clone_deeper();
            b = replace_at(b, p, expression_t::create_constant(-7));
            if (c.D(b2) != de)
                c.fail("clone-not-independent(b->b2)", de);
        }
    }
    // ---- every cloning entry point returns a tree of its own: no node shared with e, and changing it leaves e alone
    auto fresh_copy = [&](const char* what, expression_t r, const std::string& expect_dump) {
        c.count("clone-variant");
        if (c.D(r) != expect_dump)
            c.fail(std::string(what) + "-dump-differs", de + " got=" + c.D(r));
        std::vector<expression_t> a, b;
        all_nodes(e, a);
        all_nodes(r, b);
        std::set<expression_t> sa(a.begin(), a.end());
        for (auto& n : b)
            if (sa.count(n)) {
                c.fail(std::string(what) + "-shares-node", std::string(vd::kind_name(n.get_kind())) + " in " + de);
                return;
            }
        std::vector<Path> ps;
        Path cur;
        all_paths(r, cur, ps);
        for (auto& p : ps) {
            if (p.empty() || is_binder_slot(r, p))
                continue;
            r = replace_at(r, p, expression_t::create_constant(31337));
            node_at(r, Path(p.begin(), p.end() - 1)).set_type(type_t::create_primitive(Constants::DOUBLE));
            break;
        }
        if (!r.empty())
            r.set_type(type_t::create_primitive(Constants::STRING));
        if (c.D(e) != de || safe_str(e) != se)
            c.fail(std::string(what) + "-not-independent", de);
    };
    {
        std::set<symbol_t> bound0, fs0;
        free_symbols(e, bound0, fs0);
        type_t t0 = e.get_type();
        for (auto& s : fs0) {
            fresh_copy("clone-from-to-same-symbol", e.clone_deeper(s, s), de);
            break;
        }
        if (!other_syms.empty()) {
            symbol_t no = other_syms[c.rng() % other_syms.size()];
            if (!fs0.count(no) && !bound0.count(no))
                fresh_copy("clone-from-to-absent-symbol", e.clone_deeper(no, no), de);
        }
        e.get_type() == t0 ? void() : c.fail("clone-variant-changed-type", de);
    }
    // ---- subst
    {
        std::set<symbol_t> bound, fs;
        free_symbols(e, bound, fs);
        int done = 0;
        for (auto& s : fs) {
            if (done++ >= 6)
                break;
            // replacement 1: a constant
            expression_t r = expression_t::create_constant(777);
            std::string rd = c.D(r);
            expression_t res = e.subst(s, r);
            c.count("subst");
            c.dm.replace[s] = rd;
            std::string expect = c.D(e);
            c.dm.replace.clear();
            if (c.D(res) != expect)
                c.fail("subst-wrong-result", "sym=" + s.get_name() + " e=" + de + " got=" + c.D(res) + " want=" + expect);
            if (c.D(e) != de)
                c.fail("subst-mutated-original", "sym=" + s.get_name() + " e=" + de);
            // replacement 2: the symbol itself -> identity
            expression_t id = e.subst(s, expression_t::create_identifier(s));
            c.count("subst-id");
            if (c.D(id) != de)
                c.fail("subst-self-not-identity", "sym=" + s.get_name() + " e=" + de);
            if (!id.equal(e) || !e.equal(id))
                c.fail("subst-self-not-equal", "sym=" + s.get_name() + " e=" + de);
            // replacement 3: another symbol, via subst and via clone_deeper(from,to)
            if (!other_syms.empty()) {
                symbol_t to = other_syms[c.rng() % other_syms.size()];
                if (!(to == s)) {
                    expression_t rid = expression_t::create_identifier(to);
                    c.dm.replace[s] = c.D(rid);
                    std::string expect2 = c.D(e);
                    c.dm.replace.clear();
                    expression_t r2 = e.subst(s, rid);
                    c.count("subst-sym");
                    if (c.D(r2) != expect2)
                        c.fail("subst-sym-wrong-result", "sym=" + s.get_name() + "->" + to.get_name() + " e=" + de);
                    expression_t r3 = e.clone_deeper(s, to);
                    c.count("clone-from-to");
                    if (c.D(r3) != expect2)
                        c.fail("clone-from-to-wrong", "sym=" + s.get_name() + "->" + to.get_name() + " e=" + de +
                                                          " got=" + c.D(r3));
                    if (c.D(e) != de)
                        c.fail("clone-from-to-mutated-original", de);
                    fresh_copy("clone-from-to", r3, expect2);
                }
            }
        }
        // a symbol that does not occur: identity
        if (!other_syms.empty()) {
            symbol_t no = other_syms[c.rng() % other_syms.size()];
            if (!fs.count(no)) {
                c.count("subst-absent");
                if (c.D(e.subst(no, expression_t::create_constant(1))) != de)
                    c.fail("subst-absent-changed", de);
            }
        }
    }
    // ---- subst on quantifier-bound symbols: occurrence-count oracle (independent of the dumper's binder naming)
    {
        std::vector<expression_t> ns;
        all_nodes(e, ns);
        std::set<symbol_t> binders;
        for (auto& n : ns) {
            kind_t k = n.get_kind();
            if ((k == FORALL || k == EXISTS || k == SUM) && n.get_size() == 2 && !n.get(0).empty() &&
                n.get(0).get_kind() == IDENTIFIER)
                binders.insert(n.get(0).get_symbol());
        }
        auto count_refs = [](const expression_t& x, const symbol_t& s) {
            std::vector<expression_t> v;
            all_nodes(x, v);
            long c = 0;
            for (auto& n : v)
                if (n.get_kind() == IDENTIFIER && n.get_symbol() == s)
                    ++c;
            return c;
        };
        for (auto& b : binders) {
            if (other_syms.empty())
                break;
            symbol_t to = other_syms[c.rng() % other_syms.size()];
            long n_b = count_refs(e, b), n_to = count_refs(e, to);
            expression_t res = e.subst(b, expression_t::create_identifier(to));
            c.count("subst-bound");
            if (count_refs(res, b) != 0 || count_refs(res, to) != n_to + n_b)
                c.fail("subst-bound-symbol-wrong", "binder=" + b.get_name() + " occurrences=" + std::to_string(n_b) +
                                                       " left=" + std::to_string(count_refs(res, b)) + " e=" + de);
            if (c.D(e) != de)
                c.fail("subst-bound-mutated-original", de);
        }
    }
    // ---- equal: reflexive, and single-node perturbations are distinguished
    c.count("equal-refl");
    if (!e.equal(e))
        c.fail("equal-not-reflexive", de);
    {
        std::vector<Path> paths;
        Path cur;
        all_paths(e, cur, paths);
        std::shuffle(paths.begin(), paths.end(), c.rng);
        int tried = 0;
        for (auto& p : paths) {
            if (tried >= 8)
                break;
            if (is_binder_slot(e, p))
                continue;
            expression_t m = e.clone_deeper();
            expression_t n = node_at(m, p);
            kind_t k = n.get_kind();
            expression_t repl;
            std::string what;
            kind_t ok;
            size_t ar = n.get_size();
            if (k == CONSTANT) {
                type_t t = n.get_type();
                if (t.is_integer()) {
                    int32_t v = n.get_value();
                    repl = expression_t::create_constant(v == INT32_MAX ? v - 1 : v + 1, n.get_position());
                    what = "const+1";
                } else if (t.is_double()) {
                    double v = n.get_double_value();
                    double v2 = std::nextafter(v, v > 0 ? -INFINITY : INFINITY);
                    repl = expression_t::create_double(v2, n.get_position());
                    what = "double-next";
                } else
                    continue;
            } else if (k == IDENTIFIER) {
                if (other_syms.empty())
                    continue;
                symbol_t to = other_syms[c.rng() % other_syms.size()];
                if (to == n.get_symbol())
                    continue;
                repl = expression_t::create_identifier(to, n.get_position());
                what = "symbol";
            } else if (ar == 2 && (c.rng() & 1) && !n.get(0).equal(n.get(1)) &&
                       !(k == FORALL || k == EXISTS || k == SUM)) {
                repl = n.clone();
                expression_t x = repl[0];
                repl[0] = repl[1];
                repl[1] = x;
                what = "operand-swap";
            } else if (swap_kind(k, ok, ar)) {
                if (ar == 2)
                    repl = expression_t::create_binary(ok, n.get(0), n.get(1), n.get_position(), n.get_type());
                else
                    repl = expression_t::create_unary(ok, n.get(0), n.get_position(), n.get_type());
                what = "kind";
            } else
                continue;
            ++tried;
            m = replace_at(m, p, repl);
            c.count("perturb-" + what);
            if (e.equal(m) || m.equal(e))
                c.fail("equal-misses-" + what, "at " + std::string(vd::kind_name(k)) + " in " + de);
        }
    }
}

}  // namespace

void run_laws(vj::W& w, Document& doc, unsigned seed, int max_exprs, const std::vector<std::string>& extra)
{
    Ctx c(doc, seed);
    std::vector<expression_t> pool;
    vd::collect_expressions(doc, pool);
    size_t from_doc = pool.size();
    // extra texts
    for (auto& x : extra) {
        if (x.size() < 2)
            continue;
        doc.clear_errors();
        try {
            if (x[0] == 'E') {
                ExpressionBuilder eb(doc);
                parse_XTA(x.c_str() + 2, &eb, true, S_EXPRESSION, "");
                if (eb.getExpressions().size() >= 1 && !doc.has_errors())
                    pool.push_back(eb.getExpressions()[0]);
            } else if (x[0] == 'Q') {
                TigaPropertyBuilder pb(doc);
                parseProperty(x.c_str() + 2, &pb);
                if (!doc.has_errors())
                    for (auto& p : pb.getProperties())
                        if (!p.intermediate.empty())
                            pool.push_back(p.intermediate);
            }
        } catch (const std::exception&) {
        }
    }
    doc.clear_errors();
    // symbols usable as replacement targets: global variables
    std::vector<symbol_t> syms;
    for (auto& v : doc.get_globals().variables)
        syms.push_back(v.uid);
    // sub-expressions too (each parsed tree contributes its strict subtrees), bounded
    std::vector<expression_t> work;
    for (auto& e : pool) {
        std::vector<expression_t> ns;
        all_nodes(e, ns);
        for (auto& n : ns)
            work.push_back(n);
    }
    if ((int)work.size() > max_exprs) {
        std::shuffle(work.begin(), work.end(), c.rng);
        work.resize(max_exprs);
    }
    for (auto& e : work)
        laws_for(c, e, syms);
    // ---- the two-frame deep clone: "replaces each symbol with a symbol from the given frame(s), with the same name".
    // Called with the frames a label was parsed in (template frame, select frame of its edge) and on a label all of whose
    // symbols are what those frames resolve their names to (first frame first), it is a plain deep clone of the label.
    for (auto& t : doc.get_templates())
        for (auto& ed : t.edges)
            for (const expression_t* lab : {&ed.guard, &ed.sync, &ed.assign, &ed.prob}) {
                if (lab->empty())
                    continue;
                std::vector<expression_t> ns;
                all_nodes(*lab, ns);
                bool pre = ns.size() < 400;
                for (auto& n : ns) {
                    symbol_t s = n.get_symbol(), uid;
                    if (s == symbol_t())
                        continue;
                    bool res = t.frame.resolve(s.get_name(), uid);
                    if (!res && ed.select != frame_t())
                        res = ed.select.resolve(s.get_name(), uid);
                    if (!res || uid != s) {
                        pre = false;
                        break;
                    }
                }
                if (!pre) {
                    c.count("clone-frames-skipped");
                    continue;
                }
                c.count("clone-frames");
                std::string de = c.D(*lab);
                expression_t r = lab->clone_deeper(t.frame, ed.select);
                if (c.D(r) != de || !r.equal(*lab) || !lab->equal(r))
                    c.fail("clone-frames-dump-differs", de + " got=" + c.D(r));
                std::vector<expression_t> rn;
                all_nodes(r, rn);
                std::set<expression_t> sa(ns.begin(), ns.end());
                for (auto& n : rn)
                    if (sa.count(n)) {
                        c.fail("clone-frames-shares-node", de);
                        break;
                    }
            }
    // ---- symmetry / transitivity / equal => same text, over a pool with deliberate duplicates
    {
        std::vector<expression_t> p2;
        for (size_t i = 0; i < work.size() && p2.size() < 40; ++i) {
            p2.push_back(work[i]);
            if (i % 3 == 0)
                p2.push_back(work[i].clone_deeper());
        }
        size_t n = p2.size();
        std::vector<std::vector<char>> eq(n, std::vector<char>(n, 0));
        for (size_t i = 0; i < n; ++i)
            for (size_t j = 0; j < n; ++j)
                eq[i][j] = p2[i].equal(p2[j]);
        for (size_t i = 0; i < n; ++i)
            for (size_t j = 0; j < n; ++j) {
                c.count("equal-sym");
                if (eq[i][j] != eq[j][i])
                    c.fail("equal-not-symmetric", c.D(p2[i]) + " vs " + c.D(p2[j]));
                if (eq[i][j]) {
                    if (c.D(p2[i]) != c.D(p2[j]))
                        c.fail("equal-but-dump-differs", c.D(p2[i]) + " vs " + c.D(p2[j]));
                    if (safe_str(p2[i]) != safe_str(p2[j]))
                        c.fail("equal-but-str-differs", c.D(p2[i]));
                    for (size_t k = 0; k < n; ++k) {
                        c.count("equal-trans");
                        if (eq[j][k] && !eq[i][k])
                            c.fail("equal-not-transitive", c.D(p2[i]));
                    }
                }
            }
    }
    w.key("exprs_from_doc").num((long long)from_doc);
    w.key("pool").num((long long)pool.size());
    w.key("work").num((long long)work.size());
    w.key("counts").obj();
    for (auto& kv : c.counts)
        w.key(kv.first).num(kv.second);
    w.end();
    w.key("kinds").arr();
    for (auto& k : c.kinds_seen)
        w.str(k);
    w.end();
    w.key("violations").arr();
    for (auto& v : c.violations)
        w.str(v);
    w.end();
}
}  // namespace vl
