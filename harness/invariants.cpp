// C08: structural invariants of a Document, checked through the public API after every parse.
#include "invariants.h"

#include <set>

using namespace UTAP;
using namespace UTAP::Constants;

namespace vi {

namespace {
struct Walker
{
    Document& doc;
    Result& r;
    explicit Walker(Document& d, Result& r): doc(d), r(r) {}

    void fail(const std::string& rule, const std::string& what) { r.violations.push_back(rule + "|" + what); }

    void check_var(variable_t& v, const std::string& where)
    {
        r.variables++;
        if (v.uid == symbol_t()) {
            fail("uid-null:variable", where);
            return;
        }
        if (v.uid.get_data() != &v)
            fail("uid-data:variable", where + ":" + v.uid.get_name());
    }

    void check_decls(declarations_t& d, const std::string& where)
    {
        for (auto& v : d.variables)
            check_var(v, where);
        for (auto& f : d.functions) {
            r.functions++;
            if (f.uid == symbol_t())
                fail("uid-null:function", where);
            else if (f.uid.get_data() != &f)
                fail("uid-data:function", where + ":" + f.uid.get_name());
            for (auto& v : f.variables)
                check_var(v, where + ".F:" + (f.uid == symbol_t() ? "?" : f.uid.get_name()));
        }
    }

    void check_instance(instance_t& i, const std::string& cls, const std::string& where, bool typed_as_instance)
    {
        if (i.uid == symbol_t()) {
            fail("uid-null:" + cls, where);
            return;
        }
        const std::string nm = where + ":" + i.uid.get_name();
        if (i.uid.get_data() != &i)
            fail("uid-data:" + cls, nm);
        size_t np = i.parameters == frame_t() ? 0 : i.parameters.get_size();
        if (i.unbound > np)
            fail("unbound-gt-params:" + cls, nm);
        type_t t = i.uid.get_type();
        kind_t k = t.get_kind();
        if (typed_as_instance || k == INSTANCE || k == LSC_INSTANCE || k == PROCESS_SET) {
            if (t.size() != i.unbound)
                fail("arity-ne-unbound:" + cls, nm + " arity=" + std::to_string(t.size()) + " unbound=" +
                                                    std::to_string(i.unbound));
        }
        // mapping keys == exactly the bound parameters parameters[unbound..]
        std::set<symbol_t> bound;
        for (size_t j = i.unbound; j < np; ++j)
            bound.insert(i.parameters[j]);
        for (auto& kv : i.mapping) {
            if (!bound.count(kv.first))
                fail("mapping-key-not-bound-param:" + cls, nm + " key=" + kv.first.get_name());
            if (kv.second.empty())
                fail("mapping-empty-arg:" + cls, nm + " key=" + kv.first.get_name());
        }
        for (auto& s : bound)
            if (!i.mapping.count(s))
                fail("bound-param-unmapped:" + cls, nm + " param=" + s.get_name());
        for (size_t j = 0; j < i.unbound && j < np; ++j)
            if (i.mapping.count(i.parameters[j]))
                fail("unbound-param-mapped:" + cls, nm + " param=" + i.parameters[j].get_name());
        if (i.arguments > i.mapping.size())
            fail("arguments-gt-mapping:" + cls, nm);
        if (i.templ == nullptr)
            fail("templ-null:" + cls, nm);
    }

    void check_template(template_t& t, const std::string& cls, bool require_init)
    {
        r.templates++;
        std::string tn = t.uid == symbol_t() ? std::string("?") : t.uid.get_name();
        if (t.uid == symbol_t())
            fail("uid-null:" + cls, tn);
        else {
            if (t.uid.get_data() != static_cast<instance_t*>(&t))
                fail("uid-data:" + cls, tn);
            check_instance(t, cls, "", true);
            if (t.templ != &t)
                fail("templ-self:" + cls, tn);
        }
        check_decls(t, "T:" + tn);
        std::set<const location_t*> locs;
        std::set<const branchpoint_t*> bps;
        int idx = 0;
        for (auto& l : t.locations) {
            r.locations++;
            locs.insert(&l);
            if (l.nr != idx)
                fail("location-nr", tn + " idx=" + std::to_string(idx) + " nr=" + std::to_string(l.nr));
            if (l.uid == symbol_t())
                fail("uid-null:location", tn);
            else if (l.uid.get_data() != &l)
                fail("uid-data:location", tn + ":" + l.uid.get_name());
            ++idx;
        }
        idx = 0;
        for (auto& b : t.branchpoints) {
            r.branchpoints++;
            bps.insert(&b);
            if (b.bpNr != idx)
                fail("branchpoint-nr", tn + " idx=" + std::to_string(idx) + " nr=" + std::to_string(b.bpNr));
            if (b.uid == symbol_t())
                fail("uid-null:branchpoint", tn);
            else if (b.uid.get_data() != &b)
                fail("uid-data:branchpoint", tn + ":" + b.uid.get_name());
            ++idx;
        }
        idx = 0;
        for (auto& e : t.edges) {
            r.edges++;
            std::string en = tn + " edge=" + std::to_string(idx);
            if (e.nr != idx)
                fail("edge-nr", en + " nr=" + std::to_string(e.nr));
            int ns = (e.src ? 1 : 0) + (e.srcb ? 1 : 0), nd = (e.dst ? 1 : 0) + (e.dstb ? 1 : 0);
            if (ns != 1)
                fail("edge-source-count", en + " n=" + std::to_string(ns));
            if (nd != 1)
                fail("edge-target-count", en + " n=" + std::to_string(nd));
            if (e.src && !locs.count(e.src))
                fail("edge-source-foreign", en);
            if (e.srcb && !bps.count(e.srcb))
                fail("edge-source-foreign", en);
            if (e.dst && !locs.count(e.dst))
                fail("edge-target-foreign", en);
            if (e.dstb && !bps.count(e.dstb))
                fail("edge-target-foreign", en);
            ++idx;
        }
        if (require_init && t.is_TA) {
            if (t.init == symbol_t())
                fail("init-missing", tn);
            else {
                const void* d = t.init.get_data();
                bool own = false;
                for (auto& l : t.locations)
                    if (d == &l)
                        own = true;
                if (!own)
                    fail("init-foreign", tn + " init=" + t.init.get_name());
            }
        }
    }

    void run(bool clean)
    {
        check_decls(doc.get_globals(), "global");
        for (auto& t : doc.get_templates())
            check_template(t, "template", clean);
        for (auto* t : doc.get_dynamic_templates())
            if (t)
                check_template(*t, "dyn_template", false);
        // instances registered in the global frame
        std::set<const void*> templs;
        for (auto& t : doc.get_templates())
            templs.insert(static_cast<instance_t*>(&t));
        for (auto* t : doc.get_dynamic_templates())
            templs.insert(static_cast<instance_t*>(t));
        const frame_t& g = doc.get_globals().frame;
        for (uint32_t i = 0; i < g.get_size(); ++i) {
            symbol_t s = g[i];
            kind_t k = s.get_type().get_kind();
            if ((k == INSTANCE || k == LSC_INSTANCE) && !templs.count(s.get_data())) {
                r.instances++;
                if (!s.get_data()) {
                    fail("symbol-data-null:instance", s.get_name());
                    continue;
                }
                auto* inst = static_cast<instance_t*>(s.get_data());
                if (!(inst->uid == s))
                    fail("uid-symbol:instance", s.get_name());
                check_instance(*inst, "instance", "", true);
            }
        }
        for (auto& p : doc.get_processes()) {
            r.processes++;
            check_instance(p, "process", "", false);
        }
    }
};
}  // namespace

Result check(Document& doc, bool returned_clean)
{
    Result r;
    Walker w(doc, r);
    w.run(returned_clean);
    return r;
}

void Result::dump(vj::W& w) const
{
    w.key("inv").obj();
    w.key("violations").arr();
    for (auto& v : violations)
        w.str(v);
    w.end();
    w.key("counts").obj();
    w.key("variables").num(variables);
    w.key("functions").num(functions);
    w.key("templates").num(templates);
    w.key("locations").num(locations);
    w.key("branchpoints").num(branchpoints);
    w.key("edges").num(edges);
    w.key("instances").num(instances);
    w.key("processes").num(processes);
    w.end();
    w.end();
}
}  // namespace vi
