// libFuzzer target (clang, -fsanitize=fuzzer,address,undefined).  FUZZ_MODE selects the entry point.
#include "utap/DocumentBuilder.hpp"
#include "utap/prettyprinter.h"
#include "utap/property.h"
#include "utap/utap.h"

#include <libxml/xmlerror.h>

#include <cstdint>
#include <cstdlib>
#include <cstring>
#include <memory>
#include <sstream>
#include <string>

using namespace UTAP;

static int mode = 0;  // 0 xml, 1 xta, 2 part, 3 query
static std::string query_model;
static void silence(void*, const char*, ...) {}

extern "C" int LLVMFuzzerInitialize(int*, char***)
{
    xmlSetGenericErrorFunc(nullptr, silence);
    setenv("UTAP_VERIF_NO_DLOPEN", "1", 1);
    const char* m = getenv("FUZZ_MODE");
    if (m) {
        if (!strcmp(m, "xta"))
            mode = 1;
        else if (!strcmp(m, "part"))
            mode = 2;
        else if (!strcmp(m, "query"))
            mode = 3;
    }
    if (const char* qm = getenv("FUZZ_QUERY_MODEL")) {
        FILE* f = fopen(qm, "rb");
        if (f) {
            char buf[65536];
            size_t n;
            while ((n = fread(buf, 1, sizeof buf, f)) > 0)
                query_model.append(buf, n);
            fclose(f);
        }
    }
    return 0;
}

struct ExprB : ExpressionBuilder
{
    using ExpressionBuilder::ExpressionBuilder;
};

extern "C" int LLVMFuzzerTestOneInput(const uint8_t* data, size_t size)
{
    if (size == 0)
        return 0;
    try {
        if (mode == 0) {
            std::string s((const char*)data, size);
            Document d;
            parse_XML_buffer(s.c_str(), &d, true);
        } else if (mode == 1) {
            std::string s((const char*)data, size);
            Document d;
            parse_XTA(s.c_str(), &d, true);
        } else if (mode == 2) {
            uint8_t b = data[0];
            std::string s((const char*)data + 1, size - 1);
            static const xta_part_t safe_doc[] = {S_DECLARATION, S_LOCAL_DECL, S_PARAMETERS, S_INST, S_SYSTEM, S_XTA,
                                                  S_XTA_PROCESS};
            static const xta_part_t all[] = {S_XTA,        S_DECLARATION, S_LOCAL_DECL,       S_INST,   S_SYSTEM,
                                             S_PARAMETERS, S_INVARIANT,   S_EXPONENTIAL_RATE, S_SELECT, S_GUARD,
                                             S_SYNC,       S_ASSIGN,      S_EXPRESSION,       S_EXPRESSION_LIST,
                                             S_PROPERTY,   S_XTA_PROCESS, S_PROBABILITY,      S_INSTANCE_LINE,
                                             S_MESSAGE,    S_UPDATE,      S_CONDITION};
            bool newxta = (b & 0x80) == 0;
            int builder = (b >> 5) & 3;
            if (builder == 0) {
                std::ostringstream os;
                PrettyPrinter pp(os);
                parse_XTA(s.c_str(), &pp, newxta, all[(b & 31) % 21], "");
            } else if (builder == 1) {
                Document d;
                DocumentBuilder db(d);
                parse_XTA(s.c_str(), &db, newxta, safe_doc[(b & 31) % 7], "");
            } else {
                Document d;
                ExprB eb(d);
                parse_XTA(s.c_str(), &eb, newxta, all[(b & 31) % 21], "");
            }
        } else {
            std::string s((const char*)data, size);
            Document d;
            parse_XML_buffer(query_model.c_str(), &d, true);
            d.clear_errors();
            TigaPropertyBuilder pb(d);
            parseProperty(s.c_str(), &pb);
            for (auto& p : pb.getProperties())
                if (!p.intermediate.empty())
                    (void)p.intermediate.str();
        }
    } catch (const std::exception&) {
    }
    return 0;
}
