#pragma once
#include "json.h"

#include "utap/utap.h"

#include <string>
#include <vector>

namespace vi {
struct Result
{
    std::vector<std::string> violations;  // "rule|detail"
    long variables = 0, functions = 0, templates = 0, locations = 0, branchpoints = 0, edges = 0, instances = 0,
         processes = 0;
    void dump(vj::W& w) const;
};
/** returned_clean: the parse returned normally and reported no errors (enables the init-location rule). */
Result check(UTAP::Document& doc, bool returned_clean);
}  // namespace vi
