// Fork-isolated driver: reads cases on stdin, runs each in a fresh forked child through the public entry points of
// libutap, and prints one JSON line per case on stdout.
//
// Input protocol (binary safe):
//   CASE <id> <timeout_s> <nsteps>\n
//   STEP <op> <nargs>\n            (nsteps times)
//   <len>\n<len bytes>\n           (nargs times)
// Output: {"id":..,"status":"ok|signal|exit|timeout","code":N,"stderr":"..","steps":[ {...}, ... ],"destroyed":bool}
#include "dump.h"
#include "invariants.h"
#include "laws.h"

#include "libparser.h"
#include "utap/DocumentBuilder.hpp"
#include "utap/prettyprinter.h"
#include "utap/property.h"
#include "utap/typechecker.h"
#include "utap/utap.h"

#include <libxml/xmlerror.h>

#include <csignal>
#include <cstdio>
#include <cstdlib>
#include <cstring>
#include <fcntl.h>
#include <iostream>
#include <map>
#include <memory>
#include <sstream>
#include <sys/mman.h>
#include <sys/resource.h>
#include <sys/stat.h>
#include <sys/time.h>
#include <sys/wait.h>
#include <typeinfo>
#include <unistd.h>
#include <cxxabi.h>

using namespace UTAP;

extern "C" __attribute__((weak)) unsigned long long verif_step_count();
extern "C" __attribute__((weak)) void verif_step_reset(unsigned long long cap);

// --------------------------------------------------------------------------------------------------------------
struct Step
{
    std::string op;
    std::vector<std::string> args;
};
struct Case
{
    std::string id;
    int timeout = 20;
    std::vector<Step> steps;
};

static bool read_line(FILE* f, std::string& out)
{
    out.clear();
    int c;
    while ((c = fgetc(f)) != EOF) {
        if (c == '\n')
            return true;
        out.push_back((char)c);
    }
    return !out.empty();
}

static bool read_case(FILE* f, Case& c)
{
    std::string line;
    do {
        if (!read_line(f, line))
            return false;
    } while (line.empty());
    char id[512];
    int to, ns;
    if (sscanf(line.c_str(), "CASE %500s %d %d", id, &to, &ns) != 3) {
        fprintf(stderr, "driver: bad case header: %s\n", line.c_str());
        exit(3);
    }
    c.id = id;
    c.timeout = to;
    c.steps.clear();
    for (int i = 0; i < ns; ++i) {
        if (!read_line(f, line)) {
            fprintf(stderr, "driver: truncated case\n");
            exit(3);
        }
        char op[128];
        int na;
        if (sscanf(line.c_str(), "STEP %100s %d", op, &na) != 2) {
            fprintf(stderr, "driver: bad step header: %s\n", line.c_str());
            exit(3);
        }
        Step s;
        s.op = op;
        for (int a = 0; a < na; ++a) {
            if (!read_line(f, line)) {
                fprintf(stderr, "driver: truncated arg\n");
                exit(3);
            }
            size_t len = strtoull(line.c_str(), nullptr, 10);
            std::string buf(len, '\0');
            if (len && fread(&buf[0], 1, len, f) != len) {
                fprintf(stderr, "driver: short arg\n");
                exit(3);
            }
            fgetc(f);  // trailing newline
            s.args.push_back(std::move(buf));
        }
        c.steps.push_back(std::move(s));
    }
    return true;
}

// --------------------------------------------------------------------------------------------------------------
// child side

static std::string demangle(const char* n)
{
    int st = 0;
    char* d = abi::__cxa_demangle(n, nullptr, nullptr, &st);
    std::string r = (st == 0 && d) ? d : n;
    free(d);
    return r;
}

static std::string work_dir;

static std::string tmp_path(const char* suffix)
{
    static int counter = 0;
    return work_dir + "/c" + std::to_string(getpid()) + "_" + std::to_string(counter++) + suffix;
}

static void write_file(const std::string& p, const std::string& content)
{
    FILE* f = fopen(p.c_str(), "wb");
    if (!f) {
        perror("driver: fopen");
        _exit(4);
    }
    fwrite(content.data(), 1, content.size(), f);
    fclose(f);
}

static std::string read_file(const std::string& p)
{
    std::string out;
    FILE* f = fopen(p.c_str(), "rb");
    if (!f)
        return out;
    char buf[65536];
    size_t n;
    while ((n = fread(buf, 1, sizeof buf, f)) > 0)
        out.append(buf, n);
    fclose(f);
    return out;
}

/** DocumentBuilder exposing the depth of its protected stacks (telemetry only). */
struct ProbeBuilder : DocumentBuilder
{
    using DocumentBuilder::DocumentBuilder;
    size_t nfrag() { return fragments.size(); }
    size_t nframes() { return frames.size(); }
};

/** ExpressionBuilder working in a given scope (extra frames pushed on top of the global one). */
struct ScopedExprBuilder : ExpressionBuilder
{
    ScopedExprBuilder(Document& d, const std::vector<frame_t>& extra): ExpressionBuilder(d)
    {
        for (auto& f : extra)
            push_frame(f);
    }
    size_t nfrag() { return fragments.size(); }
};

/** Captures the raw query expression (before TigaPropertyBuilder strips control: wrappers); modelled on the
 * repository's own test fixture (test/document_fixture.h, QueryBuilder). */
struct RawQueryBuilder : StatementBuilder
{
    std::vector<expression_t> raw;
    explicit RawQueryBuilder(Document& d): StatementBuilder(d) {}
    void property() override
    {
        if (fragments.size() == 0)
            throw std::logic_error("no query fragment");
        raw.push_back(fragments[0]);
        fragments.pop();
    }
    void strategy_declaration(const char*) override {}
    void subjection(const char*) override {}
    void imitation(const char*) override {}
    void scenario(const char*) override {}
    void handle_expect(const char*) override {}
    bool allowProcessReferences() override { return true; }
    variable_t* addVariable(type_t, const std::string&, expression_t, position_t) override
    {
        throw NotSupportedException("addVariable");
    }
    bool addFunction(type_t, const std::string&, position_t) override { throw NotSupportedException("addFunction"); }
};

static xta_part_t part_by_name(const std::string& n, bool& ok)
{
    static const std::map<std::string, xta_part_t> m = {
        {"S_XTA", S_XTA},
        {"S_DECLARATION", S_DECLARATION},
        {"S_LOCAL_DECL", S_LOCAL_DECL},
        {"S_INST", S_INST},
        {"S_SYSTEM", S_SYSTEM},
        {"S_PARAMETERS", S_PARAMETERS},
        {"S_INVARIANT", S_INVARIANT},
        {"S_EXPONENTIAL_RATE", S_EXPONENTIAL_RATE},
        {"S_SELECT", S_SELECT},
        {"S_GUARD", S_GUARD},
        {"S_SYNC", S_SYNC},
        {"S_ASSIGN", S_ASSIGN},
        {"S_EXPRESSION", S_EXPRESSION},
        {"S_EXPRESSION_LIST", S_EXPRESSION_LIST},
        {"S_PROPERTY", S_PROPERTY},
        {"S_XTA_PROCESS", S_XTA_PROCESS},
        {"S_PROBABILITY", S_PROBABILITY},
        {"S_INSTANCE_LINE", S_INSTANCE_LINE},
        {"S_MESSAGE", S_MESSAGE},
        {"S_UPDATE", S_UPDATE},
        {"S_CONDITION", S_CONDITION},
    };
    auto it = m.find(n);
    ok = it != m.end();
    return ok ? it->second : S_XTA;
}

struct Child
{
    std::map<int, std::unique_ptr<Document>> docs;
    FILE* out;

    Document& doc(int slot, bool fresh)
    {
        if (fresh || !docs.count(slot))
            docs[slot] = std::make_unique<Document>();
        return *docs[slot];
    }

    void emit(vj::W& w)
    {
        fputs(w.s.c_str(), out);
        fputc('\n', out);
        fflush(out);
    }

    /** Runs fn, recording return value or exception class in w. Returns true if fn returned normally. */
    template <typename F>
    bool guarded(vj::W& w, F&& fn)
    {
        try {
            long long r = fn();
            w.key("ret").num(r);
            w.key("exc").null();
            return true;
        } catch (const std::exception& e) {
            w.key("ret").null();
            w.key("exc").str(demangle(typeid(e).name()));
            w.key("excmsg").str(e.what());
            return false;
        }
        // anything else propagates: std::terminate -> abort -> reported by the parent as a signal
    }

    void after_doc(vj::W& w, Document& d, bool returned, bool want_dump)
    {
        vd::dump_diagnostics(w, d);
        bool clean = returned && !d.has_errors();
        vi::Result ir = vi::check(d, clean);
        ir.dump(w);
        if (want_dump)
            vd::dump_document(w, d);
    }

    void step_parse_doc(vj::W& w, const Step& s)
    {
        // args: slot entry newxta dump text
        int slot = atoi(s.args.at(0).c_str());
        const std::string& entry = s.args.at(1);
        bool newxta = s.args.at(2) == "1";
        bool want_dump = s.args.at(3) == "1";
        const std::string& text = s.args.at(4);
        Document& d = doc(slot, true);
        bool returned = guarded(w, [&]() -> long long {
            if (entry == "xml_buffer")
                return parse_XML_buffer(text.c_str(), &d, newxta);
            if (entry == "xml_file") {
                std::string p = tmp_path(".xml");
                write_file(p, text);
                struct Rm
                {
                    std::string p;
                    ~Rm() { unlink(p.c_str()); }
                } rm{p};
                return parse_XML_file(p.c_str(), &d, newxta);
            }
            if (entry == "xml_fd") {
                int fd = memfd_create("case", 0);
                if (fd < 0 || write(fd, text.data(), text.size()) != (ssize_t)text.size())
                    _exit(4);
                lseek(fd, 0, SEEK_SET);
                struct Cl
                {
                    int fd;
                    ~Cl() { close(fd); }
                } cl{fd};
                return parse_XML_fd(fd, &d, newxta);
            }
            if (entry == "xta_buffer")
                return parse_XTA(text.c_str(), &d, newxta) ? 1 : 0;
            if (entry == "xta_file") {
                FILE* f = fmemopen((void*)text.data(), text.size(), "rb");
                if (!f && text.empty())
                    f = fopen("/dev/null", "rb");
                if (!f)
                    _exit(4);
                struct Cl
                {
                    FILE* f;
                    ~Cl() { fclose(f); }
                } cl{f};
                return parse_XTA(f, &d, newxta) ? 1 : 0;
            }
            fprintf(stderr, "driver: unknown entry %s\n", entry.c_str());
            _exit(4);
        });
        after_doc(w, d, returned, want_dump);
    }

    void step_parse_builder(vj::W& w, const Step& s)
    {
        // args: slot entry newxta builder dump text     builder: doc | pretty
        int slot = atoi(s.args.at(0).c_str());
        const std::string& entry = s.args.at(1);
        bool newxta = s.args.at(2) == "1";
        const std::string& bname = s.args.at(3);
        bool want_dump = s.args.at(4) == "1";
        const std::string& text = s.args.at(5);
        auto run = [&](ParserBuilder* b) -> long long {
            if (entry == "xml_buffer")
                return parse_XML_buffer(text.c_str(), b, newxta);
            if (entry == "xta_buffer")
                return parse_XTA(text.c_str(), b, newxta);
            if (entry == "xml_file") {
                std::string p = tmp_path(".xml");
                write_file(p, text);
                struct Rm
                {
                    std::string p;
                    ~Rm() { unlink(p.c_str()); }
                } rm{p};
                return parse_XML_file(p.c_str(), b, newxta);
            }
            fprintf(stderr, "driver: unknown entry %s\n", entry.c_str());
            _exit(4);
        };
        if (bname == "pretty") {
            std::ostringstream os;
            PrettyPrinter pp(os);
            guarded(w, [&]() -> long long { return run(&pp); });
            w.key("pretty").str(os.str());
        } else {
            Document& d = doc(slot, true);
            ProbeBuilder pb(d);
            bool returned = guarded(w, [&]() -> long long { return run(&pb); });
            w.key("nfrag").num((long long)pb.nfrag());
            w.key("nframes").num((long long)pb.nframes());
            after_doc(w, d, returned, want_dump);
        }
    }

    void step_part(vj::W& w, const Step& s)
    {
        // args: slot newxta part builder text   builder: doc | tiga | pretty | expr
        int slot = atoi(s.args.at(0).c_str());
        bool newxta = s.args.at(1) == "1";
        bool ok = false;
        xta_part_t part = part_by_name(s.args.at(2), ok);
        if (!ok) {
            fprintf(stderr, "driver: unknown part %s\n", s.args.at(2).c_str());
            _exit(4);
        }
        const std::string& bname = s.args.at(3);
        const std::string& text = s.args.at(4);
        if (bname == "pretty") {
            std::ostringstream os;
            PrettyPrinter pp(os);
            guarded(w, [&]() -> long long { return parse_XTA(text.c_str(), &pp, newxta, part, ""); });
            w.key("pretty").str(os.str());
            return;
        }
        Document& d = doc(slot, false);
        size_t e0 = d.get_errors().size();
        if (bname == "doc") {
            ProbeBuilder pb(d);
            bool returned = guarded(w, [&]() -> long long { return parse_XTA(text.c_str(), &pb, newxta, part, ""); });
            w.key("nfrag").num((long long)pb.nfrag());
            w.key("nframes").num((long long)pb.nframes());
            (void)returned;
        } else if (bname == "tiga") {
            TigaPropertyBuilder pb(d);
            guarded(w, [&]() -> long long { return parse_XTA(text.c_str(), &pb, newxta, part, ""); });
            w.key("nprops").num((long long)pb.getProperties().size());
            // printing is part of the observable path of the query back end
            w.key("props").arr();
            for (auto& p : pb.getProperties()) {
                try {
                    w.str(p.intermediate.empty() ? std::string("<empty>") : p.intermediate.str());
                } catch (const std::exception& e) {
                    w.str(std::string("<exc ") + demangle(typeid(e).name()) + ">");
                }
            }
            w.end();
        } else if (bname == "expr") {
            ScopedExprBuilder eb(d, {});
            guarded(w, [&]() -> long long { return parse_XTA(text.c_str(), &eb, newxta, part, ""); });
            w.key("nfrag").num((long long)eb.nfrag());
        } else {
            fprintf(stderr, "driver: unknown builder %s\n", bname.c_str());
            _exit(4);
        }
        w.key("new_errors").num((long long)(d.get_errors().size() - e0));
        vd::dump_diagnostics(w, d);
        vi::Result ir = vi::check(d, false);
        ir.dump(w);
    }

    /** Resolve a scope description into extra frames: "global", "T:<name>", "T:<name>/E:<nr>" */
    bool scope_frames(Document& d, const std::string& scope, std::vector<frame_t>& out)
    {
        if (scope == "global" || scope.empty())
            return true;
        if (scope.rfind("T:", 0) != 0)
            return false;
        std::string rest = scope.substr(2), tn = rest, en;
        auto p = rest.find("/E:");
        if (p != std::string::npos) {
            tn = rest.substr(0, p);
            en = rest.substr(p + 3);
        }
        for (auto& t : d.get_templates()) {
            if (t.uid.get_name() == tn) {
                out.push_back(t.frame);
                if (!en.empty()) {
                    int nr = atoi(en.c_str());
                    if (nr < 0 || (size_t)nr >= t.edges.size())
                        return false;
                    if (!(t.edges[nr].select == frame_t()))
                        out.push_back(t.edges[nr].select);
                }
                return true;
            }
        }
        return false;
    }

    void one_expr(vj::W& w, Document& d, const std::vector<frame_t>& frames, bool newxta, xta_part_t part,
                  const std::string& text, bool typecheck, bool roundtrip, vd::Dumper& dm)
    {
        w.obj();
        d.clear_errors();
        d.clear_warnings();
        expression_t e;
        {
            ScopedExprBuilder eb(d, frames);
            bool ret = guarded(w, [&]() -> long long { return parse_XTA(text.c_str(), &eb, newxta, part, ""); });
            w.key("nfrag").num((long long)eb.nfrag());
            if (ret && eb.nfrag() >= 1)
                e = eb.getExpressions()[0];
        }
        w.key("nerr").num((long long)d.get_errors().size());
        if (!d.get_errors().empty())
            w.key("err0").str(d.get_errors()[0].msg);
        if (!e.empty()) {
            w.key("dump").str(dm.expr(e));
            if (typecheck && !d.has_errors()) {
                try {
                    TypeChecker tc{d};
                    tc.checkExpression(e);
                    w.key("tc_exc").null();
                } catch (const std::exception& ex) {
                    w.key("tc_exc").str(demangle(typeid(ex).name()));
                }
                w.key("nerr_tc").num((long long)d.get_errors().size());
                if (!d.get_errors().empty())
                    w.key("tc_err0").str(d.get_errors()[0].msg);
                w.key("type").str(vd::kind_name(e.get_type().get_kind()));
                // kind with range / label / prefix wrappers removed (int and int[0,3] are both INT)
                w.key("btype").str(e.get_type().unknown() ? "UNKNOWN" : vd::kind_name(e.get_type().strip().get_kind()));
                w.key("tdump").str(dm.expr(e));
            }
            if (roundtrip) {
                std::string s1;
                bool printed = false;
                try {
                    s1 = e.str();
                    printed = true;
                    w.key("str").str(s1);
                } catch (const std::exception& ex) {
                    w.key("str_exc").str(demangle(typeid(ex).name()));
                }
                if (printed) {
                    size_t before = d.get_errors().size();
                    ScopedExprBuilder eb2(d, frames);
                    expression_t e2;
                    try {
                        parse_XTA(s1.c_str(), &eb2, newxta, part, "");
                        if (eb2.nfrag() >= 1)
                            e2 = eb2.getExpressions()[0];
                        w.key("re_exc").null();
                    } catch (const std::exception& ex) {
                        w.key("re_exc").str(demangle(typeid(ex).name()));
                    }
                    w.key("re_nerr").num((long long)(d.get_errors().size() - before));
                    if (d.get_errors().size() > before)
                        w.key("re_err0").str(d.get_errors()[before].msg);
                    if (!e2.empty()) {
                        // compare untyped structure: dump without type annotations of a fresh parse of the same text
                        w.key("re_dump").str(dm.expr(e2));
                        w.key("re_equal").boolean(e.equal(e2) && e2.equal(e));
                        try {
                            w.key("re_str").str(e2.str());
                        } catch (const std::exception& ex) {
                            w.key("re_str_exc").str(demangle(typeid(ex).name()));
                        }
                    }
                }
            }
        }
        w.end();
    }

    void step_exprs(vj::W& w, const Step& s)
    {
        // args: slot scope newxta part flags text...    flags: letters t(ypecheck) r(oundtrip)
        int slot = atoi(s.args.at(0).c_str());
        Document& d = doc(slot, false);
        std::vector<frame_t> frames;
        if (!scope_frames(d, s.args.at(1), frames)) {
            w.key("scope_error").boolean(true);
            return;
        }
        bool newxta = s.args.at(2) == "1";
        bool ok;
        xta_part_t part = part_by_name(s.args.at(3), ok);
        const std::string& flags = s.args.at(4);
        bool tc = flags.find('t') != std::string::npos, rt = flags.find('r') != std::string::npos;
        vd::SymTab st;
        st.build(d);
        for (auto& f : frames)
            st.add_frame(f, "scope");
        vd::Dumper dm;
        dm.syms = &st;
        w.key("results").arr();
        for (size_t i = 5; i < s.args.size(); ++i)
            one_expr(w, d, frames, newxta, part, s.args[i], tc, rt, dm);
        w.end();
    }

    void step_query(vj::W& w, const Step& s)
    {
        // args: slot flags text...   each text parsed by a fresh TigaPropertyBuilder via parseProperty
        int slot = atoi(s.args.at(0).c_str());
        Document& d = doc(slot, false);
        const std::string& flags = s.args.at(1);
        bool rt = flags.find('r') != std::string::npos;
        bool keep = flags.find('k') != std::string::npos;  // one builder for all texts (strategy declarations persist)
        vd::SymTab st;
        st.build(d);
        vd::Dumper dm;
        dm.syms = &st;
        std::unique_ptr<TigaPropertyBuilder> shared;
        if (keep)
            shared = std::make_unique<TigaPropertyBuilder>(d);
        w.key("results").arr();
        for (size_t i = 2; i < s.args.size(); ++i) {
            w.obj();
            d.clear_errors();
            d.clear_warnings();
            std::unique_ptr<TigaPropertyBuilder> own;
            TigaPropertyBuilder* pb = shared.get();
            if (!pb) {
                own = std::make_unique<TigaPropertyBuilder>(d);
                pb = own.get();
            }
            size_t n0 = pb->getProperties().size();
            guarded(w, [&]() -> long long { return parseProperty(s.args[i].c_str(), pb); });
            w.key("nerr").num((long long)d.get_errors().size());
            w.key("errors").arr();
            for (auto& e : d.get_errors())
                w.str(e.msg);
            w.end();
            w.key("nwarn").num((long long)d.get_warnings().size());
            w.key("props").arr();
            size_t idx = 0;
            for (auto& p : pb->getProperties()) {
                if (idx++ < n0)
                    continue;
                w.obj();
                w.key("quant").num((int)p.type);
                w.key("decl").str(p.declaration);
                w.key("nsubj").num((long long)p.subjections.size());
                w.key("dump").str(dm.expr(p.intermediate));
                {
                    // types of process-qualified names P.x (P's arguments must be substituted into them)
                    w.key("member_types").arr();
                    std::vector<expression_t> stack{p.intermediate};
                    while (!stack.empty()) {
                        expression_t n = stack.back();
                        stack.pop_back();
                        if (n.empty())
                            continue;
                        if (n.get_kind() == Constants::DOT && n.get_size() == 1 && !n.get(0).empty() &&
                            n.get(0).get_type().is_process())
                            w.arr().str(dm.expr(n)).str(dm.type(n.get_type())).end();
                        for (size_t ci = 0; ci < n.get_size(); ++ci)
                            stack.push_back(n.get(ci));
                    }
                    w.end();
                }
                if (p.expect) {
                    if (std::holds_alternative<double>(p.expect->result)) {
                        char b[64];
                        snprintf(b, sizeof b, "%a", std::get<double>(p.expect->result));
                        w.key("expect").str(b);
                    } else
                        w.key("expect").str(to_string(std::get<status_t>(p.expect->result)));
                }
                if (!p.intermediate.empty()) {
                    std::string s1;
                    bool printed = false;
                    try {
                        s1 = p.intermediate.str();
                        printed = true;
                        w.key("str").str(s1);
                    } catch (const std::exception& ex) {
                        w.key("str_exc").str(demangle(typeid(ex).name()));
                    }
                    if (printed && rt && d.get_errors().empty()) {
                        TigaPropertyBuilder pb2(d);
                        try {
                            int r2 = parseProperty(s1.c_str(), &pb2);
                            w.key("re_ret").num(r2);
                            w.key("re_exc").null();
                        } catch (const std::exception& ex) {
                            w.key("re_exc").str(demangle(typeid(ex).name()));
                        }
                        w.key("re_nerr").num((long long)d.get_errors().size());
                        if (!d.get_errors().empty())
                            w.key("re_err0").str(d.get_errors()[0].msg);
                        w.key("re_nprops").num((long long)pb2.getProperties().size());
                        if (!pb2.getProperties().empty()) {
                            auto& p2 = pb2.getProperties().back();
                            w.key("re_quant").num((int)p2.type);
                            w.key("re_dump").str(dm.expr(p2.intermediate));
                            w.key("re_equal").boolean(p.intermediate.equal(p2.intermediate) &&
                                                      p2.intermediate.equal(p.intermediate));
                            try {
                                w.key("re_str").str(p2.intermediate.empty() ? std::string("<empty>")
                                                                            : p2.intermediate.str());
                            } catch (const std::exception& ex) {
                                w.key("re_str_exc").str(demangle(typeid(ex).name()));
                            }
                        }
                        d.clear_errors();
                        d.clear_warnings();
                    }
                }
                w.end();
            }
            w.end();
            if (flags.find('w') != std::string::npos && d.get_errors().empty()) {
                // raw query expression: print, re-parse, compare
                size_t errs0 = d.get_errors().size();
                try {
                    RawQueryBuilder rb(d);
                    parseProperty(s.args[i].c_str(), &rb);
                    w.key("raw").arr();
                    for (auto& e : rb.raw) {
                        w.obj();
                        w.key("dump").str(dm.expr(e));
                        std::string s1;
                        bool printed = false;
                        try {
                            s1 = e.str();
                            printed = true;
                            w.key("str").str(s1);
                        } catch (const std::exception& ex) {
                            w.key("str_exc").str(demangle(typeid(ex).name()));
                        }
                        if (printed) {
                            size_t before = d.get_errors().size();
                            try {
                                RawQueryBuilder rb2(d);
                                // earlier lines of the same text stay in scope (strategy declarations)
                                parseProperty(s1.c_str(), &rb2);
                                w.key("re_exc").null();
                                w.key("re_nerr").num((long long)(d.get_errors().size() - before));
                                if (d.get_errors().size() > before)
                                    w.key("re_err0").str(d.get_errors()[before].msg);
                                w.key("re_n").num((long long)rb2.raw.size());
                                if (!rb2.raw.empty()) {
                                    w.key("re_dump").str(dm.expr(rb2.raw.back()));
                                    try {
                                        w.key("re_str").str(rb2.raw.back().str());
                                    } catch (const std::exception& ex) {
                                        w.key("re_str_exc").str(demangle(typeid(ex).name()));
                                    }
                                }
                            } catch (const std::exception& ex) {
                                w.key("re_exc").str(demangle(typeid(ex).name()));
                            }
                        }
                        w.end();
                    }
                    w.end();
                } catch (const std::exception& ex) {
                    w.key("raw_exc").str(demangle(typeid(ex).name()));
                }
                (void)errs0;
                d.clear_errors();
                d.clear_warnings();
            }
            w.end();
        }
        w.end();
    }

    void step_write_xml(vj::W& w, const Step& s)
    {
        int slot = atoi(s.args.at(0).c_str());
        Document& d = doc(slot, false);
        std::string p = tmp_path(".out.xml");
        guarded(w, [&]() -> long long { return write_XML_file(p.c_str(), &d); });
        w.key("content").str(read_file(p));
        unlink(p.c_str());
    }

    void step_laws(vj::W& w, const Step& s)
    {
        int slot = atoi(s.args.at(0).c_str());
        unsigned seed = (unsigned)strtoul(s.args.at(1).c_str(), nullptr, 10);
        int max_exprs = s.args.size() > 2 ? atoi(s.args[2].c_str()) : 1000000;
        Document& d = doc(slot, false);
        vl::run_laws(w, d, seed, max_exprs, s.args.size() > 3 ? std::vector<std::string>(s.args.begin() + 3, s.args.end())
                                                                : std::vector<std::string>{});
    }

    void run(const Case& c)
    {
        int idx = 0;
        for (auto& s : c.steps) {
            vj::W w;
            w.obj();
            w.key("step").num(idx++);
            w.key("op").str(s.op);
            if (s.op == "parse_doc")
                step_parse_doc(w, s);
            else if (s.op == "parse_builder")
                step_parse_builder(w, s);
            else if (s.op == "part")
                step_part(w, s);
            else if (s.op == "exprs")
                step_exprs(w, s);
            else if (s.op == "query")
                step_query(w, s);
            else if (s.op == "write_xml")
                step_write_xml(w, s);
            else if (s.op == "laws")
                step_laws(w, s);
            else if (s.op == "steps_begin") {
                // args: cap ; resets the logical clock (steps build only)
                if (verif_step_reset)
                    verif_step_reset(strtoull(s.args.at(0).c_str(), nullptr, 10));
                w.key("have_steps").boolean(verif_step_reset != nullptr);
            } else if (s.op == "tracker") {
                UTAP::tracker.position = (uint32_t)strtoul(s.args.at(0).c_str(), nullptr, 10);
                w.key("set").num((long long)UTAP::tracker.position);
            } else if (s.op == "drop") {
                docs.erase(atoi(s.args.at(0).c_str()));
            } else if (s.op == "remove_process") {
                // args: slot name ; the public Document::remove_process on the process of that name
                Document& d = doc(atoi(s.args.at(0).c_str()), false);
                bool done = false;
                for (auto& p : d.get_processes())
                    if (p.uid.get_name() == s.args.at(1)) {
                        d.remove_process(p);
                        done = true;
                        break;
                    }
                w.key("removed").boolean(done);
                w.key("processes").arr();
                for (auto& p : d.get_processes())
                    w.str(p.uid.get_name());
                w.end();
            } else if (s.op == "crash_selftest") {
                // used only by the harness self test: prove that a memory error is reported
                volatile int* p = new int[2];
                delete[] p;
                w.key("v").num(p[1]);
            } else if (s.op == "uninit_selftest") {
                // harness self test for the memcheck pass: a branch on an uninitialised heap word
                volatile int* p = (volatile int*)malloc(8);
                w.key("v").num(p[1] == 12345 ? 1 : 0);
                free((void*)p);
            } else {
                fprintf(stderr, "driver: unknown op %s\n", s.op.c_str());
                _exit(4);
            }
            if (verif_step_count)
                w.key("steps").num((long long)verif_step_count());
            w.end();
            emit(w);
        }
        docs.clear();
        fputs("{\"destroyed\":true}\n", out);
        fflush(out);
    }
};

static void silence_xml(void*, const char*, ...) {}

// --------------------------------------------------------------------------------------------------------------
// parent side

static std::string slurp_fd(int fd, size_t cap)
{
    std::string out;
    lseek(fd, 0, SEEK_SET);
    char buf[65536];
    ssize_t n;
    while ((n = read(fd, buf, sizeof buf)) > 0) {
        out.append(buf, (size_t)n);
        if (out.size() > cap)
            break;
    }
    return out;
}

#ifdef VERIF_COV
extern "C" void __gcov_dump(void);
#endif

int main(int argc, char** argv)
{
    work_dir = argc > 1 ? argv[1] : "/tmp";
    mkdir(work_dir.c_str(), 0777);
    xmlSetGenericErrorFunc(nullptr, silence_xml);
    setenv("UTAP_VERIF_NO_DLOPEN", "1", 1);
    signal(SIGPIPE, SIG_IGN);
    Case c;
    while (read_case(stdin, c)) {
        int ofd = memfd_create("out", 0), efd = memfd_create("err", 0);
        if (ofd < 0 || efd < 0) {
            perror("memfd_create");
            return 3;
        }
        struct timeval t0, t1;
        gettimeofday(&t0, nullptr);
        fflush(stdout);
        pid_t pid = fork();
        if (pid < 0) {
            perror("fork");
            return 3;
        }
        if (pid == 0) {
            dup2(efd, 2);
            int devnull = open("/dev/null", O_WRONLY);
            dup2(devnull, 1);  // library code printing to stdout must not corrupt the protocol
            fclose(stdin);
            alarm(c.timeout);
            Child ch;
            ch.out = fdopen(ofd, "w");
            ch.run(c);
            fflush(ch.out);
#ifdef VERIF_COV
            __gcov_dump();
#endif
            _exit(0);
        }
        int status = 0;
        while (waitpid(pid, &status, 0) < 0 && errno == EINTR) {
        }
        gettimeofday(&t1, nullptr);
        std::string out = slurp_fd(ofd, 256u << 20), err = slurp_fd(efd, 1u << 20);
        close(ofd);
        close(efd);
        vj::W w;
        w.obj();
        w.key("id").str(c.id);
        w.key("pid").num((long long)pid);
        if (WIFSIGNALED(status)) {
            int sg = WTERMSIG(status);
            w.key("status").str(sg == SIGALRM ? "timeout" : "signal");
            w.key("code").num(sg);
        } else {
            int ec = WEXITSTATUS(status);
            w.key("status").str(ec == 0 ? "ok" : "exit");
            w.key("code").num(ec);
        }
        w.key("wall_ms").num((t1.tv_sec - t0.tv_sec) * 1000LL + (t1.tv_usec - t0.tv_usec) / 1000);
        if (err.size() > 60000)
            err = err.substr(0, 30000) + "\n...[cut]...\n" + err.substr(err.size() - 30000);
        w.key("stderr").str(err);
        // complete lines only
        bool destroyed = false;
        w.key("steps").arr();
        size_t pos = 0;
        while (pos < out.size()) {
            size_t nl = out.find('\n', pos);
            if (nl == std::string::npos)
                break;
            std::string_view line(out.data() + pos, nl - pos);
            if (line == "{\"destroyed\":true}")
                destroyed = true;
            else if (!line.empty())
                w.raw(line);
            pos = nl + 1;
        }
        w.end();
        w.key("destroyed").boolean(destroyed);
        w.end();
        fputs(w.s.c_str(), stdout);
        fputc('\n', stdout);
        fflush(stdout);
    }
    return 0;
}
