// C18: range_t<T> against set semantics.  Standalone: includes the real utap/range.h only.
//
// usage: range_check <mode> <shard> <nshards> <seed> <count>
//   mode: int8-exh | int8-quick | int8-brute | int32 | double
// Prints one JSON object: {"mode":..,"checked":{op:count},"skipped":{..},"violations":[{op,a,b,c,d,e,got,want}]}
// Every operation is evaluated by the header under test and compared with a closed form in wider arithmetic;
// "int8-brute" validates those closed forms themselves against explicit 256-bit membership sets.
#include "utap/range.h"

#include <bitset>
#include <cinttypes>
#include <cmath>
#include <cstdio>
#include <cstdlib>
#include <cstring>
#include <map>
#include <random>
#include <string>
#include <vector>

using UTAP::range_t;

static std::map<std::string, long long> checked, skipped;
struct Viol
{
    std::string op, detail;
};
static std::vector<Viol> viols;
static std::map<std::string, long long> viol_count;

static void fail(const char* op, const std::string& detail)
{
    if (viol_count[op]++ < 5)
        viols.push_back({op, detail});
}

template <typename T>
static std::string fmt(T v)
{
    char b[64];
    if constexpr (std::is_floating_point_v<T>)
        snprintf(b, sizeof b, "%a", (double)v);
    else
        snprintf(b, sizeof b, "%lld", (long long)v);
    return b;
}

template <typename T>
static std::string fmtr(const range_t<T>& r)
{
    return "[" + fmt(r.first()) + "," + fmt(r.last()) + "]";
}

template <typename T>
struct Wide;
template <>
struct Wide<int8_t>
{
    using type = int;
};
template <>
struct Wide<int32_t>
{
    using type = long long;
};
template <>
struct Wide<double>
{
    using type = double;
};

template <typename T>
static bool fits(typename Wide<T>::type v)
{
    if constexpr (std::is_floating_point_v<T>)
        return !std::isnan(v);
    else
        return v >= (typename Wide<T>::type)std::numeric_limits<T>::min() &&
               v <= (typename Wide<T>::type)std::numeric_limits<T>::max();
}

/** expected interval [lo,hi] (empty iff lo>hi) against the result r */
template <typename T, typename W>
static void expect_range(const char* op, const range_t<T>& r, W lo, W hi, const std::string& ctx)
{
    checked[op]++;
    bool want_empty = lo > hi;
    if (want_empty) {
        if (!r.empty())
            fail(op, ctx + " got=" + fmtr(r) + " want=empty");
        return;
    }
    if (r.empty() || (W)r.first() != lo || (W)r.last() != hi)
        fail(op, ctx + " got=" + (r.empty() ? std::string("empty") : fmtr(r)) + " want=[" + fmt(lo) + "," + fmt(hi) + "]");
}

static void expect_bool(const char* op, bool got, bool want, const std::string& ctx)
{
    checked[op]++;
    if (got != want)
        fail(op, ctx + " got=" + (got ? "true" : "false") + " want=" + (want ? "true" : "false"));
}

// ---- operations with a scalar ------------------------------------------------------------------------------
template <typename T>
static void scalar_ops(T a, T b, T e)
{
    using W = typename Wide<T>::type;
    using R = range_t<T>;
    const R r{a, b};
    std::string ctx = "r=[" + fmt(a) + "," + fmt(b) + "] e=" + fmt(e);
    constexpr bool fp = std::is_floating_point_v<T>;
    const T tmin = fp ? -std::numeric_limits<T>::infinity() : std::numeric_limits<T>::min();
    const T tmax = fp ? std::numeric_limits<T>::infinity() : std::numeric_limits<T>::max();
    // gt: members > e
    if (e == tmax && !fp)
        skipped["gt(max)"]++;
    else {
        R x = R(r).gt(e);
        if (fp) {
            if (e == tmax)
                expect_range<T, W>("gt", x, 1, 0, ctx);
            else
                expect_range<T, W>("gt", x, std::max<W>(a, std::nextafter((double)e, INFINITY)), b, ctx);
        } else
            expect_range<T, W>("gt", x, std::max<W>(a, (W)e + 1), b, ctx);
    }
    // lt: members < e
    if (e == tmin && !fp)
        skipped["lt(min)"]++;
    else {
        R x = R(r).lt(e);
        if (fp) {
            if (e == tmin)
                expect_range<T, W>("lt", x, 1, 0, ctx);
            else
                expect_range<T, W>("lt", x, a, std::min<W>(b, std::nextafter((double)e, -INFINITY)), ctx);
        } else
            expect_range<T, W>("lt", x, a, std::min<W>(b, (W)e - 1), ctx);
    }
    expect_range<T, W>("geq", R(r).geq(e), std::max<W>(a, e), b, ctx);
    expect_range<T, W>("leq", R(r).leq(e), a, std::min<W>(b, e), ctx);
    expect_bool("contains", r.contains(e), a <= e && e <= b, ctx);
    expect_bool("&&e", r && e, a <= e && e <= b, ctx);
    expect_range<T, W>("&e", r & e, std::max<W>(a, e), std::min<W>(b, e), ctx);
    expect_range<T, W>("|e", r | e, std::min<W>(a, e), std::max<W>(b, e), ctx);
    expect_bool("==e", r == e, a == e && b == e, ctx);
    // arithmetic with a scalar
    {
        W lo = (W)a + (W)e, hi = (W)b + (W)e;
        if (fits<T>(lo) && fits<T>(hi))
            expect_range<T, W>("+e", r + e, lo, hi, ctx);
        else
            skipped["+e overflow"]++;
        lo = (W)a - (W)e, hi = (W)b - (W)e;
        if (fits<T>(lo) && fits<T>(hi))
            expect_range<T, W>("-e", r - e, lo, hi, ctx);
        else
            skipped["-e overflow"]++;
        W p1 = (W)a * (W)e, p2 = (W)b * (W)e;
        if (fits<T>(p1) && fits<T>(p2))
            expect_range<T, W>("*e", r * e, std::min(p1, p2), std::max(p1, p2), ctx);
        else
            skipped["*e overflow"]++;
    }
}

// ---- operations on two ranges --------------------------------------------------------------------------------
template <typename T>
static void binary_ops(T a, T b, T c, T d)
{
    using W = typename Wide<T>::type;
    using R = range_t<T>;
    const R r{a, b}, o{c, d};
    std::string ctx = "r=[" + fmt(a) + "," + fmt(b) + "] o=[" + fmt(c) + "," + fmt(d) + "]";
    expect_range<T, W>("&", r & o, std::max<W>(a, c), std::min<W>(b, d), ctx);
    expect_range<T, W>("|", r | o, std::min<W>(a, c), std::max<W>(b, d), ctx);
    expect_bool("&&", r && o, std::max<W>(a, c) <= std::min<W>(b, d), ctx);
    expect_bool("intersects", r.intersects(o), std::max<W>(a, c) <= std::min<W>(b, d), ctx);
    expect_bool("==", r == o, a == c && b == d, ctx);
    expect_bool("<", r < o, b < c, ctx);
    expect_bool(">", r > o, a > d, ctx);
    expect_bool("<=", r <= o, !(a > d), ctx);
    expect_bool(">=", r >= o, !(b < c), ctx);
    {
        W lo = (W)a + (W)c, hi = (W)b + (W)d;
        if (fits<T>(lo) && fits<T>(hi))
            expect_range<T, W>("+", r + o, lo, hi, ctx);
        else
            skipped["+ overflow"]++;
        lo = (W)a - (W)d, hi = (W)b - (W)c;
        if (fits<T>(lo) && fits<T>(hi))
            expect_range<T, W>("-", r - o, lo, hi, ctx);
        else
            skipped["- overflow"]++;
        W p1 = (W)a * (W)c, p2 = (W)a * (W)d, p3 = (W)b * (W)c, p4 = (W)b * (W)d;
        if (fits<T>(p1) && fits<T>(p2) && fits<T>(p3) && fits<T>(p4))
            expect_range<T, W>("*", r * o, std::min(std::min(p1, p2), std::min(p3, p4)),
                               std::max(std::max(p1, p2), std::max(p3, p4)), ctx);
        else
            skipped["* overflow"]++;
    }
}

template <typename T>
static void size_op(T a, T b)
{
    if constexpr (std::is_integral_v<T>) {
        long long want = (long long)b - (long long)a + 1;
        if (want > 0xffffffffLL) {
            skipped["size overflow"]++;
            return;
        }
        range_t<T> r{a, b};
        checked["size"]++;
        if ((long long)r.size() != want)
            fail("size", "r=[" + fmt(a) + "," + fmt(b) + "] got=" + std::to_string(r.size()) + " want=" + std::to_string(want));
    }
}

// ---- brute force validation of the closed forms on a small domain -----------------------------------------
static void brute()
{
    using B = std::bitset<512>;  // value v at index v+256
    const int L = -9, H = 9;
    auto set_of = [](int lo, int hi) {
        B s;
        for (int v = lo; v <= hi; ++v)
            s.set(v + 256);
        return s;
    };
    auto hull = [](const B& s, int& lo, int& hi) {
        lo = 1;
        hi = 0;
        bool any = false;
        for (int i = 0; i < 512; ++i)
            if (s[i]) {
                if (!any)
                    lo = i - 256;
                hi = i - 256;
                any = true;
            }
        return any;
    };
    for (int a = L; a <= H; ++a)
        for (int b = a; b <= H; ++b) {
            B ra = set_of(a, b);
            range_t<int8_t> r{(int8_t)a, (int8_t)b};
            for (int e = L; e <= H; ++e) {
                // membership of gt/lt/geq/leq results, element by element
                auto mem = [&](const range_t<int8_t>& x, auto pred, const char* op) {
                    for (int v = -128; v <= 127; ++v) {
                        bool want = ra[v + 256] && pred(v);
                        checked[std::string("brute-") + op]++;
                        if (x.contains((int8_t)v) != want) {
                            fail((std::string("brute-") + op).c_str(), "r=[" + fmt(a) + "," + fmt(b) + "] e=" + fmt(e) +
                                                                           " v=" + fmt(v));
                            break;
                        }
                    }
                };
                mem(range_t<int8_t>(r).gt((int8_t)e), [&](int v) { return v > e; }, "gt");
                mem(range_t<int8_t>(r).lt((int8_t)e), [&](int v) { return v < e; }, "lt");
                mem(range_t<int8_t>(r).geq((int8_t)e), [&](int v) { return v >= e; }, "geq");
                mem(range_t<int8_t>(r).leq((int8_t)e), [&](int v) { return v <= e; }, "leq");
            }
            for (int c = L; c <= H; ++c)
                for (int d = c; d <= H; ++d) {
                    B rb = set_of(c, d);
                    range_t<int8_t> o{(int8_t)c, (int8_t)d};
                    B sum, diff, prod;
                    for (int x = a; x <= b; ++x)
                        for (int y = c; y <= d; ++y) {
                            sum.set(x + y + 256);
                            diff.set(x - y + 256);
                            prod.set(x * y + 256);
                        }
                    int lo, hi;
                    auto chk = [&](const char* op, const range_t<int8_t>& got, const B& s) {
                        hull(s, lo, hi);
                        checked[std::string("brute-") + op]++;
                        if (got.first() != lo || got.last() != hi)
                            fail((std::string("brute-") + op).c_str(),
                                 "r=[" + fmt(a) + "," + fmt(b) + "] o=[" + fmt(c) + "," + fmt(d) + "] got=" + fmtr(got) +
                                     " want=[" + fmt(lo) + "," + fmt(hi) + "]");
                    };
                    chk("+", r + o, sum);
                    chk("-", r - o, diff);
                    chk("*", r * o, prod);
                    B inter = ra & rb;
                    bool any = hull(inter, lo, hi);
                    checked["brute-&"]++;
                    auto gi = r & o;
                    if (any ? (gi.empty() || gi.first() != lo || gi.last() != hi) : !gi.empty())
                        fail("brute-&", "r=[" + fmt(a) + "," + fmt(b) + "] o=[" + fmt(c) + "," + fmt(d) + "]");
                    checked["brute-&&"]++;
                    if ((r && o) != any)
                        fail("brute-&&", "r=[" + fmt(a) + "," + fmt(b) + "] o=[" + fmt(c) + "," + fmt(d) + "]");
                    B uni = ra | rb;
                    hull(uni, lo, hi);
                    checked["brute-|"]++;
                    auto gu = r | o;
                    if (gu.first() != lo || gu.last() != hi)
                        fail("brute-|", "r=[" + fmt(a) + "," + fmt(b) + "] o=[" + fmt(c) + "," + fmt(d) + "]");
                    checked["brute-size"]++;
                    if (r.size() != ra.count())
                        fail("brute-size", "r=[" + fmt(a) + "," + fmt(b) + "]");
                }
        }
}

// --------------------------------------------------------------------------------------------------------------
int main(int argc, char** argv)
{
    if (argc < 6) {
        fprintf(stderr, "usage: %s mode shard nshards seed count\n", argv[0]);
        return 2;
    }
    std::string mode = argv[1];
    long shard = atol(argv[2]), nshards = atol(argv[3]);
    unsigned long seed = strtoul(argv[4], nullptr, 10);
    long long count = atoll(argv[5]);
    bool exhaustive = false;
    if (mode == "int8-brute") {
        brute();
    } else if (mode == "int8-exh" || mode == "int8-quick") {
        // intervals are numbered; shards take interval indices i with i % nshards == shard as the left operand
        std::vector<std::pair<int8_t, int8_t>> iv;
        for (int a = -128; a <= 127; ++a)
            for (int b = a; b <= 127; ++b)
                iv.emplace_back((int8_t)a, (int8_t)b);
        bool quick = mode == "int8-quick";
        exhaustive = !quick;
        auto boundary = [](int v) { return v <= -126 || v >= 125 || (v >= -2 && v <= 2); };
        auto keep = [&](const std::pair<int8_t, int8_t>& p) {
            if (!quick)
                return true;
            return (boundary(p.first) || (p.first + 128) % 5 == (int)(seed % 5)) &&
                   (boundary(p.second) || (p.second + 128) % 5 == (int)((seed / 5) % 5));
        };
        std::vector<std::pair<int8_t, int8_t>> sel;
        for (auto& p : iv)
            if (keep(p))
                sel.push_back(p);
        for (size_t i = shard; i < sel.size(); i += nshards) {
            auto [a, b] = sel[i];
            size_op<int8_t>(a, b);
            for (int e = -128; e <= 127; ++e)
                scalar_ops<int8_t>(a, b, (int8_t)e);
            for (auto& q : sel)
                binary_ops<int8_t>(a, b, q.first, q.second);
        }
    } else if (mode == "int32") {
        std::mt19937_64 rng(seed * 1000003ULL + shard);
        const int32_t mn = std::numeric_limits<int32_t>::min(), mx = std::numeric_limits<int32_t>::max();
        std::vector<int32_t> bd = {mn, mn + 1, mn + 2, -65536, -32768, -2, -1, 0, 1, 2, 32767, 46340, 46341, 65536, mx - 2, mx - 1, mx};
        auto pick = [&]() -> int32_t {
            switch (rng() % 4) {
            case 0: return bd[rng() % bd.size()];
            case 1: return (int32_t)(rng() % 201) - 100;
            case 2: return (int32_t)(rng() % 200001) - 100000;
            default: return (int32_t)(uint32_t)rng();
            }
        };
        if (shard == 0) {
            for (auto a : bd)
                for (auto b : bd)
                    if (a <= b) {
                        size_op<int32_t>(a, b);
                        for (auto e : bd)
                            scalar_ops<int32_t>(a, b, e);
                        for (auto c : bd)
                            for (auto d : bd)
                                if (c <= d)
                                    binary_ops<int32_t>(a, b, c, d);
                    }
        }
        for (long long i = 0; i < count; ++i) {
            int32_t a = pick(), b = pick(), c = pick(), d = pick(), e = pick();
            if (a > b)
                std::swap(a, b);
            if (c > d)
                std::swap(c, d);
            size_op<int32_t>(a, b);
            scalar_ops<int32_t>(a, b, e);
            binary_ops<int32_t>(a, b, c, d);
        }
    } else if (mode == "double") {
        std::mt19937_64 rng(seed * 7919ULL + shard);
        const double inf = INFINITY, mx = std::numeric_limits<double>::max(), lo = std::numeric_limits<double>::lowest(),
                     dm = std::numeric_limits<double>::denorm_min(), eps = std::numeric_limits<double>::epsilon();
        std::vector<double> bd = {-inf, lo, std::nextafter(lo, 0.0), -1e300, -2.0, -1.0 - eps, -1.0, -dm, -0.0, 0.0, dm,
                                  std::numeric_limits<double>::min(), 1.0 - eps / 2, 1.0, 1.0 + eps, 2.0, 1e300,
                                  std::nextafter(mx, 0.0), mx, inf};
        auto pick = [&]() -> double {
            switch (rng() % 4) {
            case 0: return bd[rng() % bd.size()];
            case 1: return (double)((long)(rng() % 2001) - 1000) / 8.0;
            case 2: {
                uint64_t bits = rng();
                double v;
                memcpy(&v, &bits, 8);
                return std::isnan(v) ? 0.5 : v;
            }
            default: return std::ldexp((double)(int64_t)rng(), (int)(rng() % 200) - 130);
            }
        };
        auto run = [&](double a, double b, double c, double d, double e) {
            if (a > b)
                std::swap(a, b);
            if (c > d)
                std::swap(c, d);
            scalar_ops<double>(a, b, e);
            binary_ops<double>(a, b, c, d);
        };
        if (shard == 0)
            for (auto a : bd)
                for (auto b : bd)
                    for (auto c : bd)
                        for (auto d : bd)
                            run(a, b, c, d, bd[(size_t)(std::fabs(a + c) * 3) % bd.size()]);
        for (auto a : bd)
            for (auto b : bd)
                for (auto e : bd)
                    if (a <= b && shard == 0)
                        scalar_ops<double>(a, b, e);
        for (long long i = 0; i < count; ++i)
            run(pick(), pick(), pick(), pick(), pick());
    } else {
        fprintf(stderr, "unknown mode %s\n", mode.c_str());
        return 2;
    }
    printf("{\"mode\":\"%s\",\"shard\":%ld,\"exhaustive\":%s,\"checked\":{", mode.c_str(), shard, exhaustive ? "true" : "false");
    bool first = true;
    for (auto& kv : checked) {
        printf("%s\"%s\":%lld", first ? "" : ",", kv.first.c_str(), kv.second);
        first = false;
    }
    printf("},\"skipped\":{");
    first = true;
    for (auto& kv : skipped) {
        printf("%s\"%s\":%lld", first ? "" : ",", kv.first.c_str(), kv.second);
        first = false;
    }
    printf("},\"violation_counts\":{");
    first = true;
    for (auto& kv : viol_count) {
        printf("%s\"%s\":%lld", first ? "" : ",", kv.first.c_str(), kv.second);
        first = false;
    }
    printf("},\"violations\":[");
    first = true;
    for (auto& v : viols) {
        printf("%s{\"op\":\"%s\",\"detail\":\"%s\"}", first ? "" : ",", v.op.c_str(), v.detail.c_str());
        first = false;
    }
    printf("]}\n");
    return 0;
}
