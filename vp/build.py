"""Instrumented builds of libutap from the *current working tree* of $VERIF_REPO (default /repo).

Every variant is compiled directly (no cmake) from src/*.cpp plus parser.cpp / lexer.cc regenerated with
bison / flex from the tree, with -DUTAP_VERIF (hooks on).  Output goes to
/verif/.build/<sha256(sources, flags)>/<variant>/ so a changed source file forces a rebuild and an
unchanged tree reuses the cache.  Harness binaries are linked per variant and keyed by the harness
source hash as well.
"""
import hashlib
import fcntl
import os
import shutil
import subprocess
import sys
import time
from concurrent.futures import ThreadPoolExecutor

VERIF = os.path.dirname(os.path.dirname(os.path.abspath(__file__)))
REPO = os.environ.get("VERIF_REPO", "/repo")
BUILD_ROOT = os.path.join(VERIF, ".build")
HARNESS = os.path.join(VERIF, "harness")

COMMON = ["-std=c++17", "-fPIC", "-DUTAP_VERIF", "-w"]
SAN = ["-fsanitize=address,undefined", "-fno-sanitize-recover=all", "-fno-omit-frame-pointer",
       "-D_GLIBCXX_ASSERTIONS"]
VARIANTS = {
    # name: (compiler, cflags, ldflags)
    "asan": ("g++", ["-O1", "-g1", "-DNDEBUG"] + SAN, ["-fsanitize=address,undefined"]),
    "asan-assert": ("g++", ["-O1", "-g1"] + SAN, ["-fsanitize=address,undefined"]),
    "steps": ("g++", ["-O1", "-g1", "-DNDEBUG", "-fsanitize-coverage=trace-pc"], []),
    "plain": ("g++", ["-O1", "-g", "-DNDEBUG"], []),
    # development aid (tools/coverage.py): which library lines the monitored workloads reach
    "cov": ("g++", ["-O0", "-g1", "-DNDEBUG", "--coverage", "-DVERIF_COV"], ["--coverage"]),
    "fuzz": ("clang++-14", ["-O1", "-g1", "-DNDEBUG", "-fsanitize=fuzzer-no-link,address,undefined",
                            "-fno-sanitize=object-size", "-fno-sanitize-recover=all",
                            "-fno-omit-frame-pointer"],
             ["-fsanitize=fuzzer,address,undefined"]),
}
XML_CFLAGS = ["-isystem", "/usr/include/libxml2"]
XML_LIBS = ["-lxml2", "-ldl"]


def _hash_tree(paths, extra=""):
    h = hashlib.sha256()
    h.update(extra.encode())
    for root in paths:
        if os.path.isfile(root):
            files = [root]
        else:
            files = []
            for d, _, fs in os.walk(root):
                for f in fs:
                    files.append(os.path.join(d, f))
        for f in sorted(files):
            h.update(f.encode())
            with open(f, "rb") as fh:
                h.update(fh.read())
    return h.hexdigest()[:20]


def source_hash():
    return _hash_tree([os.path.join(REPO, "src"), os.path.join(REPO, "include")])


def _run(cmd, cwd=None):
    p = subprocess.run(cmd, cwd=cwd, stdout=subprocess.PIPE, stderr=subprocess.STDOUT, text=True)
    if p.returncode != 0:
        sys.stderr.write("BUILD FAILED: %s\n%s\n" % (" ".join(cmd), p.stdout[-4000:]))
        raise SystemExit(2)
    return p.stdout


def _prune(keep):
    """Keep the most recently used source-hash directories only (disk is limited)."""
    try:
        ds = [os.path.join(BUILD_ROOT, d) for d in os.listdir(BUILD_ROOT)
              if os.path.isdir(os.path.join(BUILD_ROOT, d))]
    except FileNotFoundError:
        return
    ds.sort(key=lambda d: os.path.getmtime(d), reverse=True)
    now = time.time()
    for d in ds[keep:]:
        # a directory touched within the last hours may belong to a check that runs right now on another tree
        # (several checks with different VERIF_REPO values side by side)
        if now - os.path.getmtime(d) > 3 * 3600:
            shutil.rmtree(d, ignore_errors=True)
    for f in os.listdir(BUILD_ROOT):
        fp = os.path.join(BUILD_ROOT, f)
        try:
            if f.startswith("lock.") and now - os.path.getmtime(fp) > 24 * 3600:
                os.unlink(fp)
        except OSError:
            pass


def build_lib(variant):
    """Returns the directory holding libutap.a for this variant of the current tree."""
    cxx, cflags, _ = VARIANTS[variant]
    sh = source_hash()
    os.makedirs(BUILD_ROOT, exist_ok=True)
    top = os.path.join(BUILD_ROOT, sh)
    out = os.path.join(top, variant)
    lock = open(os.path.join(BUILD_ROOT, "lock.%s.%s" % (sh, variant)), "w")
    fcntl.flock(lock, fcntl.LOCK_EX)
    try:
        if os.path.exists(os.path.join(out, "libutap.a")):
            os.utime(top)
            return out
        t0 = time.time()
        tmp = out + ".tmp.%d" % os.getpid()
        if variant == "cov":
            tmp = out + ".obj"      # gcov data files are written next to the objects: the path must be stable
        shutil.rmtree(tmp, ignore_errors=True)
        os.makedirs(os.path.join(tmp, "include"))
        src = os.path.join(REPO, "src")
        _run(["flex", "--outfile=" + os.path.join(tmp, "lexer.cc"), "-Putap_", os.path.join(src, "lexer.l")])
        _run(["bison", "-putap_", "-bparser", os.path.join(src, "parser.y"),
              "--output=" + os.path.join(tmp, "parser.cpp"),
              "--defines=" + os.path.join(tmp, "include", "parser.hpp")])
        units = [os.path.join(src, f) for f in sorted(os.listdir(src)) if f.endswith(".cpp")]
        units.append(os.path.join(tmp, "parser.cpp"))
        inc = ["-I" + os.path.join(tmp, "include"), "-I" + src, "-I" + os.path.join(REPO, "include")] + XML_CFLAGS
        objs = []

        def cc(u):
            o = os.path.join(tmp, os.path.basename(u) + ".o")
            _run([cxx] + COMMON + cflags + inc + ["-c", u, "-o", o])
            return o
        # parser.cpp is the long pole: start it first
        order = [units[-1]] + units[:-1]
        with ThreadPoolExecutor(max_workers=16) as ex:
            objs = list(ex.map(cc, order))
        _run(["ar", "rcs", os.path.join(tmp, "libutap.a")] + objs)
        if variant == "cov":
            shutil.rmtree(out, ignore_errors=True)
            os.makedirs(os.path.join(out, "include"))
            shutil.copy(os.path.join(tmp, "libutap.a"), out)
            shutil.copy(os.path.join(tmp, "include", "parser.hpp"), os.path.join(out, "include"))
        else:
            for o in objs:
                os.unlink(o)
            shutil.rmtree(out, ignore_errors=True)
            os.rename(tmp, out)
        sys.stderr.write("[build] %s libutap.a built in %.1fs (%s)\n" % (variant, time.time() - t0, sh))
        _prune(3)
        return out
    finally:
        fcntl.flock(lock, fcntl.LOCK_UN)
        lock.close()


def gen_kinds(incdir):
    """kind_t names for the dumper, generated from the tree's own common.h so that they can never go stale."""
    import re
    txt = open(os.path.join(REPO, "include", "utap", "common.h")).read()
    m = re.search(r"enum\s+kind_t\s*\{(.*?)\};", txt, re.S)
    body = re.sub(r"/\*.*?\*/", "", m.group(1), flags=re.S)
    body = re.sub(r"//[^\n]*", "", body)
    names = [n.strip().split("=")[0].strip() for n in body.split(",") if n.strip()]
    os.makedirs(incdir, exist_ok=True)
    out = os.path.join(incdir, "verif_kinds.inc")
    new = "".join('"%s",\n' % n for n in names)
    if not os.path.exists(out) or open(out).read() != new:
        with open(out, "w") as f:
            f.write(new)
    return names


def build_harness(variant, name, sources, extra_cflags=(), extra_ld=(), need_lib=True):
    """Compile harness/<sources> and link against the variant's libutap.a; returns the binary path."""
    cxx, cflags, ldflags = VARIANTS[variant]
    libdir = build_lib(variant) if need_lib else None
    if libdir is None:
        sh = source_hash()
        libdir = os.path.join(BUILD_ROOT, sh, variant)
        os.makedirs(libdir, exist_ok=True)
    srcs = [os.path.join(HARNESS, s) for s in sources]
    gen_kinds(os.path.join(libdir, "include"))
    hh = _hash_tree(srcs + [os.path.join(HARNESS, f) for f in sorted(os.listdir(HARNESS)) if f.endswith(".h")],
                    " ".join(list(extra_cflags) + list(extra_ld)))
    exe = os.path.join(libdir, "%s.%s" % (name, hh))
    lock = open(os.path.join(BUILD_ROOT, "lock.h.%s.%s" % (os.path.basename(os.path.dirname(libdir)), variant)), "w")
    fcntl.flock(lock, fcntl.LOCK_EX)
    try:
        if os.path.exists(exe):
            return exe
        t0 = time.time()
        inc = ["-I" + os.path.join(REPO, "include"), "-I" + os.path.join(REPO, "src"),
               "-I" + os.path.join(libdir, "include"), "-I" + HARNESS] + XML_CFLAGS
        objs = []

        def cc(u):
            o = exe + "." + os.path.basename(u) + ".o"
            fl = [f for f in cflags if not (os.path.basename(u) == "steps.cpp" and f.startswith("-fsanitize-coverage"))]
            _run([cxx] + COMMON + fl + list(extra_cflags) + inc + ["-c", u, "-o", o])
            return o
        with ThreadPoolExecutor(max_workers=8) as ex:
            objs = list(ex.map(cc, srcs))
        libs = [os.path.join(libdir, "libutap.a")] if need_lib else []
        _run([cxx] + ldflags + list(extra_ld) + ["-o", exe + ".tmp"] + objs + libs + XML_LIBS)
        for o in objs:
            os.unlink(o)
        os.rename(exe + ".tmp", exe)
        # drop stale binaries of the same harness name
        for f in os.listdir(libdir):
            if f.startswith(name + ".") and os.path.join(libdir, f) != exe and not f.endswith(".o"):
                try:
                    os.unlink(os.path.join(libdir, f))
                except OSError:
                    pass
        sys.stderr.write("[build] %s/%s linked in %.1fs\n" % (variant, name, time.time() - t0))
        return exe
    finally:
        fcntl.flock(lock, fcntl.LOCK_UN)
        lock.close()


if __name__ == "__main__":
    vs = sys.argv[1:] or ["asan"]
    for v in vs:
        print(build_lib(v))
