"""A small tokenizer for the UPPAAL model language, written from the language description (not from lexer.l):
identifiers, numbers, strings, comments and operator tokens.  Used by the fault injector and rewrite families."""
import re

# longest first
_OPS = ["<<=", ">>=", "-u->", "-->", "A<>", "A[]", "E<>", "E[]",
        "->", ":=", "+=", "-=", "*=", "/=", "%=", "|=", "&=", "^=", "<?", ">?", "**", "<<", ">>", "||", "&&",
        "<=", ">=", "==", "!=", "++", "--",
        "+", "-", "*", "/", "%", "|", "&", "^", "<", ">", "=", "!", "?", ":", ";", ",", ".", "(", ")", "[", "]",
        "{", "}", "'", "#", "\\"]
_TOKEN = re.compile(
    r"(?P<ws>[ \t\r\n]+)"
    r"|(?P<lc>//[^\n]*)"
    r"|(?P<bc>/\*.*?\*/)"
    r"|(?P<num>[0-9]+(?:\.[0-9]+)?(?:[eE][+-]?[0-9]+)?)"
    r"|(?P<id>[A-Za-z_][A-Za-z0-9_$#]*)"
    r"|(?P<str>\"[^\"]*\")"
    r"|(?P<op>" + "|".join(re.escape(o) for o in _OPS) + ")"
    r"|(?P<other>.)", re.S)


class Tok:
    __slots__ = ("kind", "text", "pos")

    def __init__(self, kind, text, pos):
        self.kind = kind
        self.text = text
        self.pos = pos

    def __repr__(self):
        return "%s(%r@%d)" % (self.kind, self.text, self.pos)


def tokenize(text, keep_space=False):
    """Returns tokens; kinds: id num str op other (+ ws lc bc when keep_space)."""
    out = []
    for m in _TOKEN.finditer(text):
        k = m.lastgroup
        if k in ("ws", "lc", "bc") and not keep_space:
            continue
        out.append(Tok(k, m.group(), m.start()))
    return out


def line_col(text, pos):
    """1-based line and 0-based byte column of a character offset (text is str; columns counted in UTF-8 bytes)."""
    before = text[:pos]
    line = before.count("\n") + 1
    last_nl = before.rfind("\n")
    col = len(before[last_nl + 1:].encode("utf-8"))
    return line, col


KEYWORDS = set("""const select guard sync assign probability process state branchpoint init trans urgent commit
broadcast chan clock bool int double string void scalar struct typedef return if else while for do break continue
switch case default true false and or not imply xor forall exists sum system progress gantt meta hybrid
before_update after_update priority assert import dynamic spawn exit numOf foreach deadlock location rate
abs fabs fmod fma fmax fmin exp exp2 expm1 ln log log10 log2 log1p pow sqrt cbrt hypot sin cos tan asin acos atan
atan2 sinh cosh tanh asinh acosh atanh erf erfc tgamma lgamma ceil floor trunc round fint ldexp ilogb logb nextafter
copysign fpclassify isfinite isinf isnan isnormal signbit isunordered random random_arcsine random_beta random_gamma
random_normal random_poisson random_tri random_weibull IO""".split())
