"""Accept/reject verdicts for many small models (one forked child per model)."""
from .runner import Case, Step, run_cases


def verdicts(models, tag="v", want_dump=False, entry="xml_buffer", newxta=1, variant="asan"):
    """Returns a list parallel to models of dict(accepted, errors, warnings, methods, exc, crash, case[, doc])."""
    cases = [Case("%s%d" % (tag, i), [Step("parse_doc", 0, entry, newxta, 1 if want_dump else 0, m)], timeout=60)
             for i, m in enumerate(models)]
    res = run_cases(cases, variant=variant)
    out = []
    for c in cases:
        r = res[c.id]
        if r["status"] != "ok":
            out.append({"crash": r, "case": c, "accepted": None})
            continue
        s = r["steps"][0]
        d = {"crash": None, "case": c, "exc": s.get("exc"), "errors": [e["msg"] for e in s["errors"]],
             "warnings": [e["msg"] for e in s["warnings"]], "methods": s["methods"],
             "accepted": s.get("exc") is None and not s["errors"], "raw_errors": s["errors"]}
        if want_dump:
            d["doc"] = s.get("doc")
        out.append(d)
    return out


def with_queries(models_and_queries, tag="vq", variant="asan"):
    """Each item: (model text, [query texts]); returns per item dict(model_ok, queries:[dict(accepted, errors)])."""
    cases = [Case("%s%d" % (tag, i), [Step("parse_doc", 0, "xml_buffer", 1, 0, m), Step("query", 0, "", *qs)], timeout=60)
             for i, (m, qs) in enumerate(models_and_queries)]
    res = run_cases(cases, variant=variant)
    out = []
    for c in cases:
        r = res[c.id]
        if r["status"] != "ok" or len(r["steps"]) < 2:
            out.append({"crash": r, "case": c})
            continue
        s0, s1 = r["steps"]
        qs = [{"accepted": q.get("exc") is None and not q.get("nerr") and bool(q.get("props")), "errors": q.get("errors"),
               "exc": q.get("exc")} for q in s1["results"]]
        out.append({"crash": None, "case": c, "model_ok": s0.get("exc") is None and not s0["errors"],
                    "model_errors": [e["msg"] for e in s0["errors"]], "queries": qs})
    return out
