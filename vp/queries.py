"""Query catalogue: every query form of the grammar, instantiated over a small fixed model."""
from . import xmlgen

DECL = """
clock x, y;
int i, j;
int[0,5] bi;
bool b;
int a[3];
double d;
hybrid clock cost;
const int N = 2;
broadcast chan go;
typedef struct { int f; } S;
S s;
int f1(int p) { return p + 1; }
dynamic Dyn(const int dv);
"""

MODEL = xmlgen.simple_model(
    decl=DECL, tname="P", tdecl="clock lx;\nint li;",
    locations=[("id0", "A", [("invariant", "lx <= 10")], None), ("id1", "B", [], None), ("id2", "C", [], "urgent")],
    edges=[("id0", "id1", [("guard", "lx >= 1"), ("assignment", "i = i + 1, lx = 0")]),
           ("id1", "id0", [("synchronisation", "go!")]), ("id1", "id2", [("guard", "i > 3")])],
    extra_templates=('<template><name>R</name><parameter>const int[0,1] ra, const int[0,2] rb</parameter><declaration>int K0; clock rx;</declaration>'
                     '<location id="r0"><name>RA</name></location><location id="r1"><name>RB</name></location><init ref="r0"/>'
                     '<transition><source ref="r0"/><target ref="r1"/><label kind="guard">rx &gt;= ra</label><label kind="assignment">K0 = rb</label></transition></template>'
                     '<template><name>S1</name><parameter>const int[0,2] sa</parameter><declaration>int sk;</declaration><location id="s0"><name>SA</name></location>'
                     '<init ref="s0"/></template>'
                     '<template><name>Dyn</name><parameter>const int dv</parameter><declaration>int dk;</declaration><location id="d0"><name>DA</name></location>'
                     '<init ref="d0"/></template>'),
    system="P1 = P();\nP2 = P();\nsystem P1, P2, R, S1;")

PRED = ["R(1,2).K0 > 0", "R(0,1).RA", "S1(2).sk == 0 && S1(0).SA", "forall (q : int[0,1]) R(q, 1).RB imply R(q, 0).K0 >= 0", "R(1,0).rx > 2",
        "P1.A", "P1.B and i > 2", "x < 5", "i == 3 || b", "not P2.B", "P1.A imply x <= 3",
        "forall (q : int[0,2]) a[q] >= 0", "exists (q : int[0,2]) a[q] == i", "P1.lx > 2 && P2.li == 0", "b", "true",
        "i + j * 2 < bi", "(P1.A or P1.B) and not P1.C", "f1(i) > 2", "s.f == 1", "a[1] > a[0]", "P1.C",
        "i <? j > 0", "(i > 0 ? j : bi) == 1", "x - y < 3", "d > 0.5", "P1.A && P2.A"]
EXPR = ["i", "x", "i + j", "P1.li", "a[1]", "bi * 2", "P1.lx", "s.f", "cost", "d", "i - j"]
BOUND = ["<=10", "<=100", "#<=20", "x<=10", "<=N", "#<=5", "y<=3", "cost<=7"]
RUNS = ["", ";100", ";7", ";1"]
PATHS = ["strategy.json", "s.json", "out dir/s.json", "C:\\\\tmp\\\\s.json", "a\\\\b", "dir/sub.dir/x(1).json", "q\\\\\\\\z.json", "tab\\\\t.json"]
# probabilities with one significant digit and extreme magnitudes print in exponent notation without a '.'
PROB = ["0.00001", "0.0000002", "0.00003", "1.0e-9", "0.99999",
        "0.5", "0.25", "0.9", "0.05", "0.75", "1.0", "0.123456789", "0.7", "0.1", "0.3", "0.30000000000000004", "0.99", "0.6"]


def catalogue(rng, n):
    """Returns n (form, text) pairs covering all forms (every form at least once when n is large enough)."""
    p = lambda: rng.choice(PRED)
    e = lambda: rng.choice(EXPR)
    bd = lambda: rng.choice(BOUND)
    rn = lambda: rng.choice(RUNS)
    forms = {
        "AG": lambda: "A[] " + p(),
        "EF": lambda: "E<> " + p(),
        "AG-deadlock": lambda: "A[] not deadlock",
        "EF-deadlock": lambda: "E<> deadlock and " + p(),
        "EG": lambda: "E[] " + p(),
        "AF": lambda: "A<> " + p(),
        "leadsto": lambda: p() + " --> " + p(),
        "buchi": lambda: "control: A[] (%s and A<> %s)" % (p(), p()),
        "buchi-compound": lambda: "control: A[] ((%s) && A<> %s)" % (rng.choice(["i > 2 || b", "b imply i > 0", "i > 0 ? b : not b", "forall (q : int[0,2]) a[q] >= 0",
                                                                                   "P1.A or P1.B", "b || P2.B && i == 0", "not b", "i == 3 && b"]), p()),
        "buchi-EF-control": lambda: "E<> control: A[] ((%s) && A<> %s)" % (rng.choice(["i > 2 || b", "b imply i > 0", "P1.A"]), p()),
        "pr-bound-expr": lambda: "Pr[%s<=(%s)](<> %s)" % (rng.choice(["x", "y", "#", ""]), rng.choice(["N > 1", "N + 1", "N > 1 ? 5 : 7", "N", "2 * N"]), p()),
        "pr-cmp-mixed-bounds": lambda: "Pr[%s](%s %s) >= Pr[%s](%s %s)" % (rng.choice(BOUND), rng.choice(["<>", "[]"]), p(), rng.choice(BOUND), rng.choice(["<>", "[]"]), p()),
        "scalar-binder": lambda: "A[] forall (q : scalar[3]) %s" % rng.choice(["true", "i >= 0", "b or not b"]),
        "control-AGAF": lambda: "control: A[] A<> %s" % p(),
        "sup": lambda: "sup: " + ", ".join(e() for _ in range(rng.randint(1, 3))),
        "sup-pred": lambda: "sup{%s}: %s" % (p(), ", ".join(e() for _ in range(rng.randint(1, 2)))),
        "inf": lambda: "inf: " + e(),
        "inf-pred": lambda: "inf{%s}: %s" % (p(), e()),
        "bounds": lambda: "bounds: " + e(),
        "bounds-pred": lambda: "bounds{%s}: %s" % (p(), e()),
        "pr-diamond": lambda: "Pr[%s%s](<> %s)" % (bd(), rn(), p()),
        "pr-box": lambda: "Pr[%s%s]([] %s)" % (bd(), rn(), p()),
        "pr-until": lambda: "Pr[%s%s](%s U %s)" % (bd(), rn(), p(), p()),
        "pr-ge": lambda: "Pr[%s%s](%s %s) >= %s" % (bd(), "", rng.choice(["<>", "[]"]), p(), rng.choice(PROB)),
        "pr-le": lambda: "Pr[%s%s](%s %s) <= %s" % (bd(), "", rng.choice(["<>", "[]"]), p(), rng.choice(PROB)),
        "pr-cmp": lambda: "Pr[%s%s](%s %s) >= Pr[%s%s](%s %s)" % (bd(), "", rng.choice(["<>", "[]"]), p(), bd(), "",
                                                                rng.choice(["<>", "[]"]), p()),
        "E-max": lambda: "E[%s%s](max: %s)" % (bd(), rn(), e()),
        "E-min": lambda: "E[%s%s](min: %s)" % (bd(), rn(), e()),
        "simulate": lambda: "simulate [%s%s] {%s}" % (bd(), rn(), ", ".join(e() for _ in range(rng.randint(1, 3)))),
        "simulate-filter": lambda: "simulate [%s%s] {%s} : %s" % (bd(), rn(), e(), p()),
        "simulate-filter-n": lambda: "simulate [%s%s] {%s} : %d : %s" % (bd(), rn(), e(), rng.randint(1, 9), p()),
        "control-AF": lambda: "control: A<> " + p(),
        "control-AG": lambda: "control: A[] " + p(),
        "control-AU": lambda: "control: A[ %s U %s ]" % (p(), p()),
        "control-AW": lambda: "control: A[ %s W %s ]" % (p(), p()),
        "EF-control": lambda: "E<> control: A<> " + p(),
        "PO-control": lambda: "{ %s } control: A<> %s" % (", ".join([e(), "P1.A"][:rng.randint(1, 2)]), p()),
        "control_t2": lambda: "control_t*(%s, %s): A<> %s" % (e(), e(), p()),
        "control_t1": lambda: "control_t*(%s): A<> %s" % (e(), p()),
        "control_t0": lambda: "control_t*: A<> " + p(),
        "minE": lambda: "minE(%s)[%s] : <> %s" % (e(), bd(), p()),
        "maxE": lambda: "maxE(%s)[%s] : <> %s" % (e(), bd(), p()),
        "minE-features": lambda: "minE(%s)[%s] {%s} -> {%s} : <> %s" % (e(), bd(), "i, P1.li", "x, P1.lx", p()),
        "maxE-features": lambda: "maxE(%s)[%s] {%s} -> {%s} : <> %s" % (e(), bd(), "i", "x", p()),
        "minPr": lambda: "minPr[%s] : <> %s" % (bd(), p()),
        "maxPr": lambda: "maxPr[%s] : <> %s" % (bd(), p()),
        "loadStrategy": lambda: 'loadStrategy {i, P1.li} -> {x} ("%s")' % rng.choice(PATHS),
        "loadStrategy-plain": lambda: 'loadStrategy("%s")' % rng.choice(PATHS),
        "strategy-decl": lambda: "strategy S1 = control: A<> " + p(),
        "strategy-minE": lambda: "strategy S2 = minE(%s)[%s] : <> %s" % (e(), bd(), p()),
        "under": lambda: "strategy S3 = control: A[] %s\nA<> %s under S3" % (p(), p()),
        "saveStrategy": lambda: 'strategy S4 = control: A<> %s\nsaveStrategy("%s", S4)' % (p(), rng.choice(PATHS)),
        "pr-under": lambda: "strategy S5 = minE(%s)[%s] : <> %s\nPr[%s](<> %s) under S5" % (e(), bd(), p(), bd(), p()),
        "mitl-diamond": lambda: "Pr ( <>[%d,%d] %s )" % (rng.randint(0, 3), rng.randint(4, 9), p()),
        "mitl-box": lambda: "Pr ( [][%d,%d] %s )" % (rng.randint(0, 3), rng.randint(4, 9), p()),
        "mitl-until": lambda: "Pr ( %s U[%d,%d] %s )" % (p(), rng.randint(0, 3), rng.randint(4, 9), p()),
        "mitl-next": lambda: "Pr ( X %s )" % p(),
        "mitl-release": lambda: "Pr ( %s R[%d,%d] %s )" % (p(), rng.randint(0, 3), rng.randint(4, 9), p()),
        "mitl-nested": lambda: "Pr ( (<>[%d,%d] ([][1,2] %s)) || (X %s) )" % (rng.randint(0, 3), rng.randint(4, 9), p(), p()),
        "mitl-mixed": lambda: "Pr ( ((%s U[0,%d] %s) %s (X %s)) %s (<>[0,%d] %s) )" % (
            p(), rng.randint(1, 9), p(), rng.choice(["&&", "||"]), p(), rng.choice(["&&", "||"]), rng.randint(1, 9), p()),
        "mitl-mixed-right": lambda: "Pr ( (X %s) %s ((<>[0,%d] %s) %s ([][1,%d] %s)) )" % (
            p(), rng.choice(["&&", "||"]), rng.randint(1, 9), p(), rng.choice(["&&", "||"]), rng.randint(2, 9), p()),
        "pr-until-const": lambda: "Pr[%s%s](%s U %s)" % (bd(), rn(), rng.choice(["true", "1", "b", "i", "false"]),
                                                       rng.choice(["1", "true", "0", "i", p()])),
        "const-bounded": lambda: rng.choice(["Pr[%d<=10%s](<> %s)" % (rng.randint(0, 9), rn(), p()), "E[%d<=10%s](max: %s)" % (rng.randint(0, 9), rn(), e()),
                                             "Pr[%d<=7]([] %s) >= Pr[%s](<> %s)" % (rng.randint(0, 9), p(), bd(), p()),
                                             "Pr[%s]([] %s) >= Pr[%d<=20](<> %s)" % (bd(), p(), rng.randint(0, 9), p()),
                                             "minE(%s)[%d<=10] : <> %s" % (e(), rng.randint(0, 9), p()), "maxE(%s)[%d<=10] {i} -> {x} : <> %s" % (e(), rng.randint(0, 9), p()),
                                             "simulate [%d<=10%s] {%s}" % (rng.randint(0, 9), rn(), e()), "Pr[%d<=5](<> %s) >= 0.5" % (rng.randint(0, 9), p()),
                                             "minPr[%d<=10] : <> %s" % (rng.randint(0, 9), p())]),
        "dynamic": lambda: rng.choice(["Pr[%s](<> numOf(Dyn) > %d)" % (bd(), rng.randint(0, 3)), "E[%s%s](max: numOf(Dyn))" % (bd(), rn()),
                                       "simulate [%s] {numOf(Dyn), %s}" % (bd(), e()), "Pr[%s]([] forall (dq : Dyn)(dq.dk >= 0))" % bd(),
                                       "Pr[%s](<> exists (dq : Dyn)(dq.DA && numOf(Dyn) > 1))" % bd(), "E[%s](min: sum (dq : Dyn)(dq.dk))" % bd(),
                                       "Pr[%s](<> numOf(Dyn) + i < 3) >= 0.5" % bd()]),
        "mitl-conj": lambda: "Pr ( (%s U[0,%d] %s) && %s )" % (p(), rng.randint(1, 9), p(), p()),
    }
    names = sorted(forms)
    out = []
    for i in range(n):
        f = names[i % len(names)]
        out.append((f, forms[f]()))
    return out
