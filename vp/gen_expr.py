"""Abstract expression trees, their two renderings (minimal / full parentheses) and their expected dump.

The operator table below is written from the UPPAAL language description as summarised in property C02
(levels high -> low): postfix () [] . ' ++ --; prefix ! not - + ++ --; **; * / %; + -; << >>; <? >?;
< <= >= >; == !=; &; ^; |; && and; || or xor imply; ?: (right); assignments (right); forall exists sum.
Every binary level associates to the left.  It is NOT derived from parser.y or from the printer.

Trees are tuples:
  ("id", name) ("int", n) ("bool", 0|1) ("dbl", text)
  ("un", KIND, x)            KIND in NOT UNARY_MINUS PRE_INCREMENT PRE_DECREMENT POST_INCREMENT POST_DECREMENT RATE
  ("bin", KIND, a, b)        ("assign", KIND, a, b)     ("ite", c, a, b)
  ("idx", a, i)  ("dot", a, field)  ("call", fname, [args])  ("builtin", KIND, [args])
  ("quant", KIND, var, typetext, body)   ("imply", a, b)  ("plus", x)  (unary plus: identity)
"""
import struct

POSTFIX, PREFIX = 15, 14
BIN = {
    # KIND: (level, [spellings])
    "POW": (13, ["**"]),
    "MULT": (12, ["*"]), "DIV": (12, ["/"]), "MOD": (12, ["%"]),
    "PLUS": (11, ["+"]), "MINUS": (11, ["-"]),
    "BIT_LSHIFT": (10, ["<<"]), "BIT_RSHIFT": (10, [">>"]),
    "MIN": (9, ["<?"]), "MAX": (9, [">?"]),
    "LT": (8, ["<"]), "LE": (8, ["<="]), "GE": (8, [">="]), "GT": (8, [">"]),
    "EQ": (7, ["=="]), "NEQ": (7, ["!="]),
    "BIT_AND": (6, ["&"]),
    "BIT_XOR": (5, ["^"]),
    "BIT_OR": (4, ["|"]),
    "AND": (3, ["&&", "and"]),
    "OR": (2, ["||", "or"]), "XOR": (2, ["xor"]),
}
IMPLY_LEVEL = 2
ITE_LEVEL = 1
ASSIGN_LEVEL = 0
QUANT_LEVEL = -1
ASSIGN = {"ASSIGN": ["=", ":="], "ASS_PLUS": ["+="], "ASS_MINUS": ["-="], "ASS_MULT": ["*="], "ASS_DIV": ["/="],
          "ASS_MOD": ["%="], "ASS_OR": ["|="], "ASS_AND": ["&="], "ASS_XOR": ["^="], "ASS_LSHIFT": ["<<="],
          "ASS_RSHIFT": [">>="]}
PREFIX_OPS = {"NOT": ["!", "not"], "UNARY_MINUS": ["-"], "PRE_INCREMENT": ["++"], "PRE_DECREMENT": ["--"]}
POSTFIX_OPS = {"POST_INCREMENT": "++", "POST_DECREMENT": "--", "RATE": "'"}
QUANT = {"FORALL": "forall", "EXISTS": "exists", "SUM": "sum"}
BUILTIN1 = {"ABS_F": "abs", "FABS_F": "fabs", "EXP_F": "exp", "EXP2_F": "exp2", "EXPM1_F": "expm1", "LN_F": "ln",
            "LOG_F": "log", "LOG10_F": "log10", "LOG2_F": "log2", "LOG1P_F": "log1p", "SQRT_F": "sqrt",
            "CBRT_F": "cbrt", "SIN_F": "sin", "COS_F": "cos", "TAN_F": "tan", "ASIN_F": "asin", "ACOS_F": "acos",
            "ATAN_F": "atan", "SINH_F": "sinh", "COSH_F": "cosh", "TANH_F": "tanh", "ASINH_F": "asinh",
            "ACOSH_F": "acosh", "ATANH_F": "atanh", "ERF_F": "erf", "ERFC_F": "erfc", "TGAMMA_F": "tgamma",
            "LGAMMA_F": "lgamma", "CEIL_F": "ceil", "FLOOR_F": "floor", "TRUNC_F": "trunc", "ROUND_F": "round",
            "FINT_F": "fint", "ILOGB_F": "ilogb", "LOGB_F": "logb", "FP_CLASSIFY_F": "fpclassify",
            "IS_FINITE_F": "isfinite", "IS_INF_F": "isinf", "IS_NAN_F": "isnan", "IS_NORMAL_F": "isnormal",
            "SIGNBIT_F": "signbit", "IS_UNORDERED_F": "isunordered", "RANDOM_F": "random",
            "RANDOM_POISSON_F": "random_poisson"}
BUILTIN2 = {"FMOD_F": "fmod", "FMAX_F": "fmax", "FMIN_F": "fmin", "FDIM_F": "fdim", "POW_F": "pow",
            "HYPOT_F": "hypot", "ATAN2_F": "atan2", "LDEXP_F": "ldexp", "NEXT_AFTER_F": "nextafter",
            "COPY_SIGN_F": "copysign", "RANDOM_ARCSINE_F": "random_arcsine", "RANDOM_BETA_F": "random_beta",
            "RANDOM_GAMMA_F": "random_gamma", "RANDOM_NORMAL_F": "random_normal",
            "RANDOM_WEIBULL_F": "random_weibull"}
BUILTIN3 = {"FMA_F": "fma", "RANDOM_TRI_F": "random_tri"}

# ---- the fixed declaration prelude all generated expressions are parsed against -------------------------
PRELUDE = """
int i, j, k;
int[0,10] bi;
bool b, c;
double d, e;
clock x, y;
const int N = 3;
int a[5];
int m[3][4];
bool ba[2];
typedef int[0,3] id_t;
typedef struct { int f; int g[3]; double h; } S;
typedef struct { S s; int n; S q[2]; } T2;
S s;
T2 t;
S sa[2];
chan ch;
int f0() { return 1; }
int f1(int p) { return p; }
int f2(int p, int q) { return p + q; }
int f3(int p, int q, int r) { return p; }
double g1(double p) { return p; }
"""
INT_IDS = ["i", "j", "k", "bi", "N"]
BOOL_IDS = ["b", "c"]
DBL_IDS = ["d", "e"]
CLOCK_IDS = ["x", "y"]
STRUCTS = {"S": [("f", "int"), ("g", "int[3]"), ("h", "double")], "T2": [("s", "S"), ("n", "int"), ("q", "S[2]")]}
FUNCS = {"f0": 0, "f1": 1, "f2": 2, "f3": 3, "g1": 1}
QUANT_TYPES = ["int[0,3]", "int[1,2]", "id_t"]
# expected dump of the binder's type as the builder constructs it (const prefix added to quantified variables)
QUANT_TYPE_DUMP = {
    "int[0,3]": "<CONSTANT <RANGE <INT> <UNKNOWN (CONSTANT i 0)> <UNKNOWN (CONSTANT i 3)>>>",
    "int[1,2]": "<CONSTANT <RANGE <INT> <UNKNOWN (CONSTANT i 1)> <UNKNOWN (CONSTANT i 2)>>>",
    "id_t": "<CONSTANT <LABEL id_t:<RANGE <INT> <UNKNOWN (CONSTANT i 0)> <UNKNOWN (CONSTANT i 3)>>>>",
}


def c_hex(f):
    """Python float -> the text glibc's printf("%a") produces."""
    if f != f:
        return "nan"
    if f in (float("inf"), float("-inf")):
        return "inf" if f > 0 else "-inf"
    h = f.hex()          # [-]0x1.xxxxxxxxxxxxxp+e
    sign = ""
    if h.startswith("-"):
        sign, h = "-", h[1:]
    mant, exp = h.split("p")
    if "." in mant:
        ip, fp = mant.split(".")
        fp = fp.rstrip("0")
        mant = ip + ("." + fp if fp else "")
    if exp.startswith("+"):
        exp = "+" + exp[1:]
    return sign + mant + "p" + exp


def dbl_bits(f):
    return struct.pack(">d", f)


# ---- kind / level of a node -------------------------------------------------------------------------------
def level(t):
    k = t[0]
    if k in ("id", "int", "bool", "dbl", "call", "builtin", "idx", "dot"):
        return POSTFIX + 1 if k in ("id", "int", "bool", "dbl") else POSTFIX
    if k == "un":
        return POSTFIX if t[1] in POSTFIX_OPS else PREFIX
    if k == "plus":
        return PREFIX
    if k == "bin":
        return BIN[t[1]][0]
    if k == "imply":
        return IMPLY_LEVEL
    if k == "ite":
        return ITE_LEVEL
    if k == "assign":
        return ASSIGN_LEVEL
    if k == "quant":
        return QUANT_LEVEL
    raise ValueError(t)


def kind_of(t):
    """Kind name of the root of the tree the parser is expected to build."""
    k = t[0]
    if k == "id":
        return "IDENTIFIER"
    if k in ("int", "bool", "dbl"):
        return "CONSTANT"
    if k in ("un", "bin", "assign", "builtin", "quant"):
        return t[1]
    if k == "plus":
        return kind_of(t[1])
    if k == "imply":
        return "OR"
    return {"ite": "INLINE_IF", "idx": "ARRAY", "dot": "DOT", "call": "FUN_CALL"}[k]


# ---- expected dump ----------------------------------------------------------------------------------------
class Env:
    """Typing environment just rich enough to resolve struct field indices and owner labels."""

    def __init__(self, owner="global", owners=None, var_types=None, structs=None):
        self.owner = owner
        self.owners = owners or {}            # name -> owner label (default: self.owner)
        self.var_types = var_types if var_types is not None else {"s": "S", "t": "T2", "sa": "S[2]"}
        self.func_ret = {}
        self.structs = structs if structs is not None else STRUCTS

    def owner_of(self, name):
        return self.owners.get(name, self.owner)

    def type_of(self, t, bound):
        k = t[0]
        if k == "id":
            return self.var_types.get(t[1])
        if k == "dot":
            st = self.type_of(t[1], bound)
            if st in self.structs:
                for n, ty in self.structs[st]:
                    if n == t[2]:
                        return ty
            return None
        if k == "idx":
            at = self.type_of(t[1], bound)
            if at and at.endswith("]"):
                return at[:at.rindex("[")]
            return None
        if k == "call":
            return self.func_ret.get(t[1])
        if k == "assign":
            return self.type_of(t[2], bound)
        if k == "plus":
            return self.type_of(t[1], bound)
        return None


def dump(t, env=None, bound=()):
    env = env or Env()
    k = t[0]
    if k == "id":
        n = t[1]
        for lvl in range(len(bound) - 1, -1, -1):
            if bound[lvl] == n:
                return "(IDENTIFIER %s@bound%d)" % (n, lvl)
        return "(IDENTIFIER %s@%s)" % (n, env.owner_of(n))
    if k == "int":
        return "(CONSTANT i %d)" % t[1]
    if k == "bool":
        return "(CONSTANT b %d)" % t[1]
    if k == "dbl":
        return "(CONSTANT d %s)" % c_hex(float(t[1]))
    if k == "plus":
        return dump(t[1], env, bound)
    if k == "un":
        return "(%s %s)" % (t[1], dump(t[2], env, bound))
    if k in ("bin", "assign"):
        return "(%s %s %s)" % (t[1], dump(t[2], env, bound), dump(t[3], env, bound))
    if k == "imply":
        return "(OR (NOT %s) %s)" % (dump(t[1], env, bound), dump(t[2], env, bound))
    if k == "ite":
        return "(INLINE_IF %s %s %s)" % tuple(dump(x, env, bound) for x in t[1:4])
    if k == "idx":
        return "(ARRAY %s %s)" % (dump(t[1], env, bound), dump(t[2], env, bound))
    if k == "dot":
        st = env.type_of(t[1], bound)
        idx = [n for n, _ in env.structs[st]].index(t[2])
        return "(DOT #%d %s .%s)" % (idx, dump(t[1], env, bound), t[2])
    if k == "call":
        return "(FUN_CALL %s)" % " ".join(["(IDENTIFIER %s@%s)" % (t[1], env.owner_of(t[1]))] + [dump(x, env, bound) for x in t[2]])
    if k == "builtin":
        return "(%s %s)" % (t[1], " ".join(dump(x, env, bound) for x in t[2]))
    if k == "quant":
        return "(%s (bind %s %s) %s)" % (t[1], t[2], QUANT_TYPE_DUMP[t[3]], dump(t[4], env, bound + (t[2],)))
    raise ValueError(t)


# ---- rendering --------------------------------------------------------------------------------------------
class Renderer:
    def __init__(self, rng=None, full=False, variants=True, noise=False):
        self.rng = rng
        self.full = full
        self.variants = variants and rng is not None
        self.noise = noise and rng is not None

    def pick(self, spellings):
        if self.variants and len(spellings) > 1:
            return self.rng.choice(spellings)
        return spellings[0]

    def sp(self):
        if not self.noise:
            return " "
        r = self.rng.random()
        if r < 0.7:
            return " "
        if r < 0.8:
            return "  "
        if r < 0.87:
            # block comments of every shape: empty, only stars, stars before the closer, slashes and openers inside,
            # line breaks inside, the word the query lexer looks for
            return " " + self.rng.choice(["/* c */", "/* c */", "/**/", "/***/", "/****/", "/* x **/", "/** doc **/", "/*/ */", "/* /* */",
                                          "/* // */", "/* a\n b */", "/* * / */", "/* EXPECT: x */", "/*EXPECT:*/", "/* \\ */"]) + " "
        if r < 0.93:
            return "\n"
        if r < 0.97:
            return " " + self.rng.choice(["// c", "//", "// /* c", "// c */", "/// c", "// EXPECT: y", "// \"q"]) + "\n"
        return "\t"

    def wrap(self, child, need):
        s = self.render(child)
        if self.full:
            # parenthesise every operand except bare atoms (so that full != min only by parentheses)
            need = child[0] not in ("id", "int", "bool", "dbl")
        return "(" + self.sp() + s + self.sp() + ")" if need else s

    def render(self, t):
        k = t[0]
        sp = self.sp
        if k == "id":
            return t[1]
        if k == "int":
            return str(t[1])
        if k == "bool":
            return "true" if t[1] else "false"
        if k == "dbl":
            return t[1]
        if k == "plus":
            return "+" + sp() + self.wrap(t[1], level(t[1]) < PREFIX)
        if k == "un":
            op = t[1]
            x = t[2]
            if op in POSTFIX_OPS:
                return self.wrap(x, level(x) < POSTFIX) + sp() + POSTFIX_OPS[op]
            return self.pick(PREFIX_OPS[op]) + sp() + self.wrap(x, level(x) < PREFIX)
        if k == "bin":
            lv = BIN[t[1]][0]
            a, b = t[2], t[3]
            return self.wrap(a, level(a) < lv) + sp() + self.pick(BIN[t[1]][1]) + sp() + self.wrap(b, level(b) <= lv)
        if k == "imply":
            a, b = t[1], t[2]
            return self.wrap(a, level(a) < IMPLY_LEVEL) + sp() + "imply" + sp() + self.wrap(b, level(b) <= IMPLY_LEVEL)
        if k == "ite":
            c, a, b = t[1], t[2], t[3]
            # right associative: condition must bind tighter; the middle operand is delimited by ? : but is kept
            # at the same rule as the condition for safety; the last operand may be another ?:
            return (self.wrap(c, level(c) <= ITE_LEVEL) + sp() + "?" + sp() + self.wrap(a, level(a) < ASSIGN_LEVEL) + sp() +
                    ":" + sp() + self.wrap(b, level(b) < ITE_LEVEL))
        if k == "assign":
            a, b = t[2], t[3]
            return (self.wrap(a, level(a) <= ASSIGN_LEVEL) + sp() + self.pick(ASSIGN[t[1]]) + sp() +
                    self.wrap(b, level(b) < ASSIGN_LEVEL))
        if k == "idx":
            a = t[1]
            return self.wrap(a, level(a) < POSTFIX) + sp() + "[" + sp() + self.render(t[2]) + sp() + "]"
        if k == "dot":
            a = t[1]
            return self.wrap(a, level(a) < POSTFIX) + sp() + "." + sp() + t[2]
        if k == "call":
            return t[1] + sp() + "(" + sp() + ("," + sp()).join(self.render(x) for x in t[2]) + sp() + ")"
        if k == "builtin":
            name = {**BUILTIN1, **BUILTIN2, **BUILTIN3}[t[1]]
            return name + sp() + "(" + sp() + ("," + sp()).join(self.render(x) for x in t[2]) + sp() + ")"
        if k == "quant":
            body = t[4]
            # the body extends as far to the right as possible: no parentheses needed inside
            b = self.render(body)
            if self.full and body[0] not in ("id", "int", "bool", "dbl"):
                b = "(" + b + ")"
            return "%s%s(%s%s%s:%s%s%s)%s%s" % (QUANT[t[1]], sp(), sp(), t[2], sp(), sp(), t[3], sp(), sp(), b)
        raise ValueError(t)


def render_min(t, rng=None, variants=True, noise=False):
    return Renderer(rng, False, variants, noise).render(t)


def render_full(t, rng=None, variants=True, noise=False):
    return Renderer(rng, True, variants, noise).render(t)


# ---- generation -------------------------------------------------------------------------------------------
UN_KINDS = list(PREFIX_OPS) + list(POSTFIX_OPS)
BIN_KINDS = list(BIN)
ASSIGN_KINDS = list(ASSIGN)


class Gen:
    def __init__(self, rng):
        self.rng = rng
        self.bound = []

    def atom(self):
        r = self.rng.random()
        if self.bound and r < 0.2:
            return ("id", self.rng.choice(self.bound))
        if r < 0.45:
            return ("id", self.rng.choice(INT_IDS))
        if r < 0.55:
            return ("id", self.rng.choice(BOOL_IDS))
        if r < 0.62:
            return ("id", self.rng.choice(DBL_IDS))
        if r < 0.67:
            return ("id", self.rng.choice(CLOCK_IDS))
        if r < 0.85:
            return ("int", self.rng.choice([0, 1, 2, 3, 7, 10, 255, 32767, 2147483647]))
        if r < 0.92:
            return ("bool", self.rng.randint(0, 1))
        return ("dbl", self.rng.choice(["0.5", "1.5", "2.0", "0.1", "1e3", "3.25e-2", "1E+2"]))

    def struct_expr(self, depth):
        """An expression of struct type S (so that a DOT on it is legal for the builder)."""
        r = self.rng.random()
        if depth <= 0 or r < 0.35:
            return ("id", "s"), "S"
        if r < 0.5:
            return ("idx", ("id", "sa"), self.tree(depth - 1)), "S"
        if r < 0.65:
            return ("dot", ("id", "t"), "s"), "S"
        if r < 0.75:
            return ("idx", ("dot", ("id", "t"), "q"), self.tree(depth - 1)), "S"
        return ("id", "t"), "T2"

    def of_kind(self, kind, depth, sub=None):
        """A tree whose root has the given kind; sub(depth) generates operands."""
        sub = sub or (lambda d: self.tree(d))
        d = depth - 1
        if kind == "IDENTIFIER":
            return ("id", self.rng.choice(INT_IDS + BOOL_IDS + DBL_IDS))
        if kind == "CONSTANT":
            return self.rng.choice([("int", self.rng.choice([0, 1, 5, 2147483647])), ("bool", self.rng.randint(0, 1)),
                                    ("dbl", self.rng.choice(["0.5", "2.0", "1e3"]))])
        if kind in PREFIX_OPS or kind in POSTFIX_OPS:
            return ("un", kind, sub(d))
        if kind in BIN:
            return ("bin", kind, sub(d), sub(d))
        if kind in ASSIGN:
            return ("assign", kind, sub(d), sub(d))
        if kind == "INLINE_IF":
            return ("ite", sub(d), sub(d), sub(d))
        if kind == "ARRAY":
            return ("idx", sub(d), sub(d))
        if kind == "DOT":
            se, st = self.struct_expr(d)
            return ("dot", se, self.rng.choice([n for n, _ in STRUCTS[st]]))
        if kind == "FUN_CALL":
            f = self.rng.choice(list(FUNCS))
            return ("call", f, [sub(d) for _ in range(FUNCS[f])])
        if kind in BUILTIN1:
            return ("builtin", kind, [sub(d)])
        if kind in BUILTIN2:
            return ("builtin", kind, [sub(d), sub(d)])
        if kind in BUILTIN3:
            return ("builtin", kind, [sub(d), sub(d), sub(d)])
        if kind in QUANT:
            v = self.rng.choice(["q", "r", "i"])   # 'i' shadows the global i on purpose
            self.bound.append(v)
            try:
                body = sub(d)
            finally:
                self.bound.pop()
            return ("quant", kind, v, self.rng.choice(QUANT_TYPES), body)
        if kind == "IMPLY":
            return ("imply", sub(d), sub(d))
        if kind == "UPLUS":
            return ("plus", sub(d))
        raise ValueError(kind)

    ALL_KINDS = (["IDENTIFIER", "CONSTANT"] + UN_KINDS + BIN_KINDS + ASSIGN_KINDS +
                 ["INLINE_IF", "ARRAY", "DOT", "FUN_CALL", "IMPLY", "UPLUS"] + list(QUANT) +
                 ["ABS_F", "SIN_F", "FMAX_F", "POW_F", "FMA_F", "RANDOM_TRI_F", "LN_F", "IS_NAN_F"])

    def tree(self, depth):
        if depth <= 0 or self.rng.random() < 0.18:
            return self.atom()
        r = self.rng.random()
        if r < 0.42:
            kind = self.rng.choice(BIN_KINDS)
        elif r < 0.55:
            kind = self.rng.choice(UN_KINDS)
        elif r < 0.63:
            kind = self.rng.choice(ASSIGN_KINDS)
        elif r < 0.70:
            kind = "INLINE_IF"
        elif r < 0.76:
            kind = "ARRAY"
        elif r < 0.81:
            kind = "DOT"
        elif r < 0.86:
            kind = "FUN_CALL"
        elif r < 0.90:
            kind = self.rng.choice(list(BUILTIN1) + list(BUILTIN2) + list(BUILTIN3))
        elif r < 0.94:
            kind = self.rng.choice(list(QUANT))
        elif r < 0.97:
            kind = "IMPLY"
        else:
            kind = "UPLUS"
        return self.of_kind(kind, depth)


def operand_slots(kind):
    """Number of operand positions of a parent kind that accept arbitrary sub-expressions."""
    if kind in PREFIX_OPS or kind in POSTFIX_OPS or kind in BUILTIN1 or kind == "UPLUS":
        return 1
    if kind in BIN or kind in ASSIGN or kind in BUILTIN2 or kind in ("ARRAY", "IMPLY"):
        return 2
    if kind in BUILTIN3 or kind == "INLINE_IF":
        return 3
    if kind in QUANT:
        return 1
    return 0


def with_child(gen, parent_kind, pos, child):
    """Parent of the given kind with 'child' at operand position pos and atoms elsewhere."""
    slots = operand_slots(parent_kind)
    ops = [gen.atom() for _ in range(slots)]
    ops[pos] = child
    if parent_kind in PREFIX_OPS or parent_kind in POSTFIX_OPS:
        return ("un", parent_kind, ops[0])
    if parent_kind == "UPLUS":
        return ("plus", ops[0])
    if parent_kind in BIN:
        return ("bin", parent_kind, ops[0], ops[1])
    if parent_kind in ASSIGN:
        return ("assign", parent_kind, ops[0], ops[1])
    if parent_kind == "IMPLY":
        return ("imply", ops[0], ops[1])
    if parent_kind == "ARRAY":
        return ("idx", ops[0], ops[1])
    if parent_kind == "INLINE_IF":
        return ("ite", ops[0], ops[1], ops[2])
    if parent_kind in BUILTIN1 or parent_kind in BUILTIN2 or parent_kind in BUILTIN3:
        return ("builtin", parent_kind, ops)
    if parent_kind in QUANT:
        return ("quant", parent_kind, "q", "int[0,3]", ops[0])
    raise ValueError(parent_kind)


def triples(tree, out, bound=()):
    """(parent kind, child kind, position) triples present in an abstract tree (after unary-plus removal)."""
    k = tree[0]
    kids = []
    if k == "plus":
        return triples(tree[1], out)
    if k == "un":
        kids = [tree[2]]
    elif k in ("bin", "assign"):
        kids = [tree[2], tree[3]]
    elif k == "imply":
        out.add(("OR", "NOT", 0))
        out.add(("NOT", kind_of(tree[1]), 0))
        out.add(("OR", kind_of(tree[2]), 1))
        triples(tree[1], out)
        triples(tree[2], out)
        return
    elif k == "ite":
        kids = [tree[1], tree[2], tree[3]]
    elif k == "idx":
        kids = [tree[1], tree[2]]
    elif k == "dot":
        kids = [tree[1]]
    elif k in ("call", "builtin"):
        kids = list(tree[2])
    elif k == "quant":
        kids = [tree[4]]
    pk = kind_of(tree)
    for i, c in enumerate(kids):
        out.add((pk, kind_of(c), i))
        triples(c, out)


# ---- typed generation (expressions that also pass the type checker against PRELUDE) ---------------------
class TypedGen:
    """Generates trees of a requested type (int / bool / double) that the type checker accepts."""
    INT_ARITH = ["PLUS", "MINUS", "MULT", "DIV", "MOD", "BIT_AND", "BIT_OR", "BIT_XOR", "BIT_LSHIFT", "BIT_RSHIFT",
                 "MIN", "MAX"]
    DBL_ARITH = ["PLUS", "MINUS", "MULT", "DIV", "MIN", "MAX"]
    REL = ["LT", "LE", "GE", "GT", "EQ", "NEQ"]
    DBL_FUN1 = ["FABS_F", "EXP_F", "LN_F", "SQRT_F", "SIN_F", "COS_F", "CEIL_F", "FLOOR_F", "TRUNC_F", "ROUND_F",
                "ATAN_F", "TANH_F", "LOG2_F", "CBRT_F"]
    DBL_FUN2 = ["FMOD_F", "FMAX_F", "FMIN_F", "POW_F", "HYPOT_F", "ATAN2_F", "COPY_SIGN_F"]

    def __init__(self, rng, side_effects=True, doubles=True, quantifiers=True):
        self.rng = rng
        self.bound = []
        self.side_effects = side_effects
        self.doubles = doubles
        self.quantifiers = quantifiers

    def int_lvalue(self, d):
        r = self.rng.random()
        if d <= 0 or r < 0.4:
            return ("id", self.rng.choice(["i", "j", "k"]))
        if r < 0.55:
            return ("idx", ("id", "a"), self.int(d - 1, pure=True))
        if r < 0.65:
            return ("idx", ("idx", ("id", "m"), self.int(d - 1, pure=True)), self.int(d - 1, pure=True))
        if r < 0.75:
            return ("dot", ("id", "s"), "f")
        if r < 0.82:
            return ("idx", ("dot", ("id", "s"), "g"), self.int(d - 1, pure=True))
        if r < 0.88:
            return ("dot", ("dot", ("id", "t"), "s"), "f")
        if r < 0.94:
            return ("dot", ("idx", ("id", "sa"), self.int(d - 1, pure=True)), "f")
        return ("dot", ("id", "t"), "n")

    def int_atom(self):
        r = self.rng.random()
        if self.bound and r < 0.25:
            return ("id", self.rng.choice(self.bound))
        if r < 0.6:
            return ("id", self.rng.choice(INT_IDS))
        return ("int", self.rng.choice([0, 1, 2, 3, 5, 10, 100, 32767, 2147483647]))

    def int(self, d, pure=False):
        r = self.rng.random()
        if d <= 0 or r < 0.2:
            return self.int_atom()
        if r < 0.5:
            return ("bin", self.rng.choice(self.INT_ARITH), self.int(d - 1, pure), self.int(d - 1, pure))
        if r < 0.56:
            return ("un", "UNARY_MINUS", self.int(d - 1, pure))
        if r < 0.66:
            return self.int_lvalue(d - 1)
        if r < 0.72:
            return ("ite", self.bool(d - 1, pure), self.int(d - 1, pure), self.int(d - 1, pure))
        if r < 0.80:
            f = self.rng.choice(["f0", "f1", "f2", "f3"])
            return ("call", f, [self.int(d - 1, pure) for _ in range(FUNCS[f])])
        if r < 0.84 and self.quantifiers:
            v = self.rng.choice(["q", "r"])
            self.bound.append(v)
            try:
                body = self.int(d - 1, True)
            finally:
                self.bound.pop()
            return ("quant", "SUM", v, self.rng.choice(QUANT_TYPES), body)
        if r < 0.87:
            return ("builtin", "ABS_F", [self.int(d - 1, pure)])
        if r < 0.90:
            return ("plus", self.int(d - 1, pure))
        if not pure and self.side_effects:
            if r < 0.95:
                return ("assign", self.rng.choice(["ASSIGN", "ASS_PLUS", "ASS_MINUS", "ASS_MULT", "ASS_DIV", "ASS_MOD",
                                                   "ASS_OR", "ASS_AND", "ASS_XOR", "ASS_LSHIFT", "ASS_RSHIFT"]),
                        self.int_lvalue(d - 1), self.int(d - 1, pure))
            return ("un", self.rng.choice(["PRE_INCREMENT", "PRE_DECREMENT", "POST_INCREMENT", "POST_DECREMENT"]),
                    self.int_lvalue(d - 1))
        return self.int_atom()

    def bool(self, d, pure=False):
        r = self.rng.random()
        if d <= 0 or r < 0.15:
            return self.rng.choice([("id", "b"), ("id", "c"), ("bool", 0), ("bool", 1)])
        if r < 0.40:
            return ("bin", self.rng.choice(self.REL), self.int(d - 1, pure), self.int(d - 1, pure))
        if r < 0.46 and self.doubles:
            return ("bin", self.rng.choice(["LT", "LE", "GE", "GT"]), self.dbl(d - 1), self.dbl(d - 1))
        if r < 0.66:
            return ("bin", self.rng.choice(["AND", "OR", "XOR"]), self.bool(d - 1, pure), self.bool(d - 1, pure))
        if r < 0.74:
            return ("un", "NOT", self.bool(d - 1, pure))
        if r < 0.80:
            return ("imply", self.bool(d - 1, pure), self.bool(d - 1, pure))
        if r < 0.86 and self.quantifiers:
            v = self.rng.choice(["q", "r"])
            self.bound.append(v)
            try:
                body = self.bool(d - 1, True)
            finally:
                self.bound.pop()
            return ("quant", self.rng.choice(["FORALL", "EXISTS"]), v, self.rng.choice(QUANT_TYPES), body)
        if r < 0.92:
            return ("ite", self.bool(d - 1, pure), self.bool(d - 1, pure), self.bool(d - 1, pure))
        if r < 0.96:
            return ("idx", ("id", "ba"), self.int(d - 1, True))
        return ("bin", self.rng.choice(["EQ", "NEQ"]), self.bool(d - 1, pure), self.bool(d - 1, pure))

    def dbl(self, d):
        r = self.rng.random()
        if d <= 0 or r < 0.3:
            return self.rng.choice([("id", "d"), ("id", "e"), ("dbl", self.rng.choice(
                ["0.5", "1.5", "2.0", "0.1", "1e3", "3.25e-2", "0.333333333333333314829616256247", "1e-7",
                 "123456.789", "1e22", "2.5e-300", "17.0"]))])
        if r < 0.6:
            return ("bin", self.rng.choice(self.DBL_ARITH), self.dbl(d - 1), self.dbl(d - 1))
        if r < 0.72:
            return ("builtin", self.rng.choice(self.DBL_FUN1), [self.dbl(d - 1)])
        if r < 0.80:
            return ("builtin", self.rng.choice(self.DBL_FUN2), [self.dbl(d - 1), self.dbl(d - 1)])
        if r < 0.85:
            return ("un", "UNARY_MINUS", self.dbl(d - 1))
        if r < 0.90:
            return ("dot", ("id", "s"), "h")
        if r < 0.95:
            return ("ite", self.bool(d - 1, True), self.dbl(d - 1), self.dbl(d - 1))
        return ("call", "g1", [self.dbl(d - 1)])

    def any(self, d):
        r = self.rng.random()
        if r < 0.5:
            return self.int(d)
        if r < 0.85 or not self.doubles:
            return self.bool(d)
        return self.dbl(d)
