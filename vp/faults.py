"""Fault injection: structural faults on XML text, token-level faults on text blocks, and semantic faults on
abstract models (vp/gen_model.py)."""
import copy
import re

from . import lexer

ATTRS = ["id", "ref", "kind", "key", "value", "outcome", "type", "controllable", "action", "instanceid", "x", "y"]
ELEMENTS = ["name", "parameter", "declaration", "location", "init", "transition", "source", "target", "label", "nail",
            "branchpoint", "queries", "query", "formula", "comment", "option", "expect", "resource", "result", "system",
            "template", "urgent", "committed", "lsc", "instance", "message", "condition", "update", "prechart",
            "yloccoord", "lsclocation", "temperature", "anchor", "type", "mode", "instantiation"]

_TAG = re.compile(r"<(/?)([A-Za-z_][\w]*)((?:\s+[\w:]+\s*=\s*(?:\"[^\"]*\"|'[^']*'))*)\s*(/?)>")
_ATTR = re.compile(r"\s+([\w:]+)\s*=\s*(\"[^\"]*\"|'[^']*')")


def tags(xml):
    return list(_TAG.finditer(xml))


def element_span(xml, m):
    """Span of the whole element starting at opening tag match m (None if not found)."""
    if m.group(1):          # closing tag
        return None
    if m.group(4):          # self closing
        return m.start(), m.end()
    name = m.group(2)
    depth = 0
    for t in _TAG.finditer(xml, m.start()):
        if t.group(2) != name:
            continue
        if t.group(1):
            depth -= 1
            if depth == 0:
                return m.start(), t.end()
        elif not t.group(4):
            depth += 1
    return None


def xml_faults(xml, rng, n=1):
    """Applies n random structural faults; returns (new xml, [descriptions])."""
    desc = []
    for _ in range(n):
        ts = tags(xml)
        opens = [t for t in ts if not t.group(1)]
        if not opens:
            break
        op = rng.choice(["rm-attr", "empty-attr", "dup-attr", "change-attr", "rm-elem", "dup-elem", "swap-elem",
                         "empty-elem", "nest-elem", "truncate", "unknown-elem", "dangling-ref", "dup-id", "add-attr",
                         "rm-text", "cdata", "rename-elem", "insert-elem"])
        t = rng.choice(opens)
        if op in ("rm-attr", "empty-attr", "dup-attr", "change-attr"):
            withattr = [x for x in opens if x.group(3).strip()]
            if not withattr:
                continue
            t = rng.choice(withattr)
            attrs = list(_ATTR.finditer(t.group(3)))
            a = rng.choice(attrs)
            base = t.start(3)
            s, e = base + a.start(), base + a.end()
            if op == "rm-attr":
                xml = xml[:s] + xml[e:]
            elif op == "empty-attr":
                xml = xml[:s] + ' %s=""' % a.group(1) + xml[e:]
            elif op == "dup-attr":
                xml = xml[:e] + xml[s:e] + xml[e:]
            else:
                xml = xml[:s] + ' %s="%s"' % (a.group(1), rng.choice(["zz9", "true", "false", "-1", "id0", "select", "guard",
                                                                      "invariant", "&lt;", "", " "])) + xml[e:]
            desc.append("%s %s@%s" % (op, t.group(2), a.group(1)))
        elif op == "add-attr":
            a = rng.choice(ATTRS)
            v = rng.choice(["id0", "", "x", "true", "guard", "1"])
            xml = xml[:t.start(3)] + ' %s="%s"' % (a, v) + xml[t.start(3):]
            desc.append("add-attr %s@%s" % (t.group(2), a))
        elif op in ("rm-elem", "dup-elem", "empty-elem", "nest-elem", "rm-text", "cdata", "rename-elem"):
            sp = element_span(xml, t)
            if not sp:
                continue
            s, e = sp
            el = xml[s:e]
            if op == "rm-elem":
                xml = xml[:s] + xml[e:]
            elif op == "dup-elem":
                xml = xml[:e] + el + xml[e:]
            elif op == "empty-elem":
                xml = xml[:s] + "<%s%s/>" % (t.group(2), t.group(3)) + xml[e:]
            elif op == "nest-elem":
                xml = xml[:t.end()] + el + xml[t.end():]
            elif op == "rm-text":
                inner_end = el.rfind("</")
                if inner_end > 0 and not t.group(4):
                    xml = xml[:t.end()] + rng.choice(["", " ", "\n\n", "\t"]) + xml[s + inner_end:]
            elif op == "cdata":
                inner_end = el.rfind("</")
                if inner_end > 0 and not t.group(4) and "<" not in el[t.end() - s:inner_end]:
                    xml = xml[:t.end()] + "<![CDATA[" + el[t.end() - s:inner_end] + "]]>" + xml[s + inner_end:]
            elif op == "rename-elem":
                new = rng.choice(ELEMENTS)
                el2 = re.sub(r"^<%s" % t.group(2), "<" + new, el)
                el2 = re.sub(r"</%s>$" % t.group(2), "</%s>" % new, el2)
                xml = xml[:s] + el2 + xml[e:]
            desc.append("%s %s" % (op, t.group(2)))
        elif op == "swap-elem":
            t2 = rng.choice(opens)
            a, b = element_span(xml, t), element_span(xml, t2)
            if not a or not b or a == b:
                continue
            if a[0] > b[0]:
                a, b = b, a
            if a[1] > b[0]:
                continue
            xml = xml[:a[0]] + xml[b[0]:b[1]] + xml[a[1]:b[0]] + xml[a[0]:a[1]] + xml[b[1]:]
            desc.append("swap-elem %s %s" % (t.group(2), t2.group(2)))
        elif op == "truncate":
            cut = rng.choice(ts).end() if rng.random() < 0.7 else rng.randrange(len(xml))
            xml = xml[:cut]
            desc.append("truncate")
        elif op == "unknown-elem":
            xml = xml[:t.end()] + "<bogus a=\"1\">text</bogus>" + xml[t.end():]
            desc.append("unknown-elem in %s" % t.group(2))
        elif op == "insert-elem":
            el = rng.choice(['<label kind="guard">1</label>', "<urgent/>", "<committed/>", '<init ref="id0"/>',
                             '<location id="id0"/>', '<branchpoint id="id0"/>', "<name>N</name>", "<declaration>int q;</declaration>",
                             '<transition><source ref="id0"/><target ref="id0"/></transition>', "<parameter>int p</parameter>",
                             "<queries/>", "<query/>", "<query><formula>A[] true</formula></query>", "<formula/>", "<comment/>",
                             '<option key="k" value="v"/>', '<option/>', '<expect outcome="success" type="quality" value="1"/>',
                             "<expect/>", '<resource type="time" value="1" unit="s"/>', "<resource/>", "<result/>",
                             "<system>system P;</system>", "<lsc><name>S</name></lsc>", "<instantiation>X = P();</instantiation>",
                             '<source ref="nope"/>', '<target/>', '<label/>', '<label kind="select">i:int[0,1]</label>',
                             '<label kind="exponentialrate">2</label>', '<label kind="probability">3</label>'])
            pos = rng.choice([t.end(), t.start()])
            xml = xml[:pos] + el + xml[pos:]
            desc.append("insert-elem %s near %s" % (el[:24], t.group(2)))
        elif op == "dangling-ref":
            refs = list(re.finditer(r'ref="([^"]*)"', xml))
            if refs:
                r = rng.choice(refs)
                xml = xml[:r.start(1)] + rng.choice(["nope", "", "id99999", " "]) + xml[r.end(1):]
                desc.append("dangling-ref")
        elif op == "dup-id":
            ids = list(re.finditer(r'\bid="([^"]*)"', xml))
            if len(ids) >= 2:
                a, b = rng.sample(ids, 2)
                xml = xml[:b.start(1)] + a.group(1) + xml[b.end(1):]
                desc.append("dup-id")
    return xml, desc


# ---- token level -------------------------------------------------------------------------------------------
STRAY = ["(", ")", "[", "]", "{", "}", ";", ",", ":", "?", "!", "=", "==", "&&", "||", "+", "-", "*", "/", "%", "<", ">",
         "'", ".", "->", "++", "--", "<?", "**", "if", "else", "for", "while", "do", "return", "struct", "typedef",
         "const", "int", "bool", "clock", "chan", "void", "forall", "exists", "sum", "true", "false", "not", "and", "or",
         "imply", "broadcast", "urgent", "meta", "hybrid", "process", "state", "init", "trans", "system", "select",
         "guard", "sync", "assign", "deadlock", "A", "E", "U", "W", "R", "Pr", "control", "simulate", "sup", "inf",
         "2147483648", "99999999999", "1e999", "0.5", "@", "$", "\\", "\"", "\"str\"", "/*", "*/", "//", "#", "location",
         "spawn", "exit", "numOf", "dynamic", "priority", "progress", "gantt", "import", "switch", "case", "default",
         "break", "continue", "assert", "before_update", "after_update", "commit", "branchpoint", "probability", "IO",
         "scalar", "double", "string", "query", "strategy", "under", "minE", "maxE", "loadStrategy", "saveStrategy"]


def token_faults(text, rng, n=1):
    """Token-level mutation of a text block; returns (new text, [descriptions])."""
    desc = []
    for _ in range(n):
        toks = lexer.tokenize(text)
        if not toks:
            text = rng.choice(STRAY)
            desc.append("replace-empty")
            continue
        op = rng.choice(["delete", "duplicate", "swap", "replace", "insert", "truncate", "unbalance", "splice-keyword",
                         "long-id", "big-number", "unterminated-comment", "delete-range"])
        i = rng.randrange(len(toks))
        t = toks[i]
        s, e = t.pos, t.pos + len(t.text)
        if op == "delete":
            text = text[:s] + text[e:]
        elif op == "duplicate":
            text = text[:e] + " " + t.text + text[e:]
        elif op == "swap" and len(toks) > 1:
            j = rng.randrange(len(toks))
            t2 = toks[j]
            if i != j:
                a, b = (t, t2) if t.pos < t2.pos else (t2, t)
                text = text[:a.pos] + b.text + text[a.pos + len(a.text):b.pos] + a.text + text[b.pos + len(b.text):]
        elif op == "replace":
            text = text[:s] + rng.choice(STRAY) + text[e:]
        elif op == "insert":
            text = text[:s] + rng.choice(STRAY) + " " + text[s:]
        elif op == "truncate":
            text = text[:e]
        elif op == "unbalance":
            br = [x for x in toks if x.text in "()[]{}"]
            if br:
                b = rng.choice(br)
                text = text[:b.pos] + text[b.pos + 1:]
        elif op == "splice-keyword":
            text = text[:s] + rng.choice(["if (", "for (", "while (", "return", "struct {", "typedef", "forall (", "{", "}"]) + " " + text[s:]
        elif op == "long-id":
            text = text[:s] + "a" * rng.choice([3999, 4000, 4001, 8000]) + text[e:]
        elif op == "big-number":
            text = text[:s] + rng.choice(["2147483647", "2147483648", "4294967296", "99999999999999999999", "1e308", "1e309", "0.000000000000000000001e-320"]) + text[e:]
        elif op == "unterminated-comment":
            text = text[:s] + "/* " + text[s:]
        elif op == "delete-range" and len(toks) > 2:
            j = min(len(toks) - 1, i + rng.randint(1, 4))
            text = text[:s] + text[toks[j].pos + len(toks[j].text):]
        desc.append(op)
    return text, desc


# ---- semantic faults on abstract models --------------------------------------------------------------------
def model_faults(m, rng):
    """Returns (mutated deep copy, description) with one recoverable error (duplicate names, bad endpoints, ...)."""
    m = copy.deepcopy(m)
    ops = ["dup-global", "dup-local", "dup-location-name", "dup-template", "dup-function", "dup-process", "bad-init",
           "few-args", "many-args", "unknown-template", "broken-function", "urgent-and-committed", "dup-param",
           "unknown-process", "bad-param-type", "dup-select", "dup-instance", "guard-undeclared", "location-keyword-name"]
    op = rng.choice(ops)
    t = rng.choice(m["templates"])
    if op == "dup-global":
        v = rng.choice([d for d in m["gdecl"] if d["kind"] == "var"])
        m["gdecl"].append(copy.deepcopy(v))
    elif op == "dup-local":
        vs = [d for d in t["decls"] if d["kind"] == "var"]
        if vs:
            t["decls"].append(copy.deepcopy(rng.choice(vs)))
        else:
            t["decls"].append({"kind": "var", "name": "g0", "type": ("int",), "init": None})
            t["decls"].append({"kind": "var", "name": "g0", "type": ("bool",), "init": None})
    elif op == "dup-location-name":
        t["locations"].append({"id": "dupl1", "name": t["locations"][0].get("name") or "L0", "inv": None, "rate": None, "flag": None})
        t["locations"].append({"id": "dupl2", "name": t["locations"][0].get("name") or "L0", "inv": None, "rate": None, "flag": None})
        t["edges"].append({"src": "dupl1", "dst": "dupl2", "control": None, "select": [], "guard": None, "sync": None, "assign": [], "prob": None})
    elif op == "dup-template":
        m["templates"].append(copy.deepcopy(t))
    elif op == "dup-function":
        m["gdecl"].append({"kind": "func", "name": "inc", "text": "void dupf() { }\nint dupf() { return 1; }"})
    elif op == "dup-process":
        m["system"][0].append(m["system"][0][0])
    elif op == "bad-init":
        t["init"] = rng.choice(t["branchpoints"] + ["MISSING"]) if rng.random() < 0.7 else t["init"]
        if t["init"] == "MISSING":
            t["init_missing"] = True
    elif op in ("few-args", "many-args") and m["insts"]:
        i = rng.choice(m["insts"])
        if op == "few-args" and i["args"]:
            i["args"].pop()
        else:
            i["args"].append(("int", 1))
    elif op == "unknown-template":
        m["insts"].append({"name": "ZZ", "params": [], "templ": "NoSuchTemplate", "args": []})
        m["system"][0].append("ZZ")
    elif op == "broken-function":
        m["gdecl"].insert(rng.randrange(len(m["gdecl"]) + 1),
                          {"kind": "raw", "name": "", "text": rng.choice(["int broken( { return 1; }", "void broken() { int x = ; }",
                                                                          "void broken() { if (1) { }", "int broken(int a, ) { return a; }",
                                                                          "void broken() { for (;;) }", "typedef struct { int a } B;",
                                                                          "int q[;", "void broken() { switch (1) { case 1: break; } }"])})
    elif op == "urgent-and-committed":
        t["locations"][0]["flag"] = "urgent"
        t["locations"][0]["both_flags"] = True
    elif op == "dup-param" and t["params"]:
        t["params"].append(copy.deepcopy(t["params"][0]))
    elif op == "unknown-process":
        m["system"][0].append("NoSuchProcess")
    elif op == "bad-param-type":
        t["params"].append({"name": "pz", "type": ("name", "nosuchtype", ("int",)), "ref": False, "kind": "cint"})
    elif op == "dup-select" and t["edges"]:
        e = rng.choice(t["edges"])
        e["select"] = [("s0", ("int", ("int", 0), ("int", 2))), ("s0", ("int", ("int", 0), ("int", 1)))]
    elif op == "dup-instance" and m["insts"]:
        m["insts"].append(copy.deepcopy(m["insts"][0]))
    elif op == "guard-undeclared" and t["edges"]:
        rng.choice(t["edges"])["guard"] = ("bin", "LT", ("id", "undeclared_v"), ("int", 3))
    elif op == "location-keyword-name":
        t["locations"][0]["name"] = rng.choice(["true", "int", "system", "L 0", "9x", "a-b"])
    return m, op
