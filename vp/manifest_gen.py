"""Regenerates /verif/MANIFEST.json from the table below (run: python3 -m vp.manifest_gen)."""
import json
import os

VERIF = os.path.dirname(os.path.dirname(os.path.abspath(__file__)))

CHECKS = {
    # id: (category, level text, level_note, technique)
}
NOT_APPLICABLE = {
    # id: reason
}


def claim(pid, category, text, note, technique):
    CHECKS[pid] = (category, text, note, technique)


claim("C02", "exploration",
      "abstract expression trees (all depth-2 operator triples, associativity chains, random trees, model contexts, "
      "literal edge values incl. decimal literals beside double midpoints) rendered from a reference operator table and "
      "compared with the tree the real parser built under both syntax switches; identifier binding under shadowing (names "
      "re-declared in function bodies, nested blocks, iteration and select binders, parameters) predicted by the scope rule; "
      "each parse under ASan+UBSan in a forked child",
      "reference operator table written from the statement; CPython float() for literals; held = on the cases run",
      "runtime monitoring: reference-model comparison of recorded parse trees (generated inputs, sanitizer build)")
claim("C18", "exploration",
      "every range_t operation executed by the real header under UBSan and compared with closed-form set "
      "semantics; the thorough tier enumerates int8_t completely",
      "UBSan + closed forms validated by bitset brute force; int32/double boundary + sampled",
      "runtime monitoring: UBSan-instrumented execution of the real header vs reference set semantics "
      "(exhaustive for int8_t)")

claim("C01", "exploration",
      "hostile inputs for every parsing entry point x syntax switch x back end, each in a forked ASan+UBSan+"
      "_GLIBCXX_ASSERTIONS child (and a sample in the assert-enabled build); deterministic step clock for the "
      "termination/time clauses over scaling families (incl. right-nested and entity-expansion families); a sample again under "
      "valgrind memcheck on the uninstrumented build; libFuzzer campaigns whose artifacts are re-keyed in the driver; the "
      "monitors prove at start-up that they fire (deliberate use-after-free and uninitialised branch)",
      "sanitizers see only executed paths; libxml2/libstdc++ uninstrumented; a std::exception is an allowed outcome",
      "runtime monitoring: sanitizer/assertion reports of instrumented executions under generated hostile "
      "workloads + coverage-guided fuzzing + logical step budget")
claim("C03", "exploration",
      "every accepted generated expression (typed and raw) and every query form is printed by the library, re-parsed "
      "in the same scope and compared (dump and second print); failures are shrunk to the smallest construct; constants cover "
      "17-digit and exponent-only doubles, INT_MIN, escaped strings; both nestings of all same-level operator pairs; dynamic-template "
      "and constant-bound query forms",
      "self-consistency oracle (first parse vs parse of printed text); generators cover operators, not all programs",
      "runtime monitoring: print/re-parse round-trip monitor over recorded trees (sanitizer build)")
claim("C04", "exploration",
      "random accepted abstract models rendered to XML (shuffled labels, random ids) and compared field by field with "
      "the document at builder level and after static analysis, through parse_XML_buffer/file/fd; dynamic templates, CDATA "
      "text blocks, keyword-shaped and special location names, weighted location edges, branchpoint-to-branchpoint edges, layout around "
      "names, labels of kinds the reader does not keep",
      "generator covers the constructs listed in the evidence rule; abstract model is the oracle",
      "runtime monitoring: reference-model comparison of the built Document (generated models, sanitizer build)")
claim("C05", "exploration",
      "the same abstract model rendered to XML and to XTA; canonical documents, diagnostics and supported-method "
      "verdicts of both front ends compared, including models with one injected semantic error (incl. duplicate location names "
      "carrying labels) and 3.x-syntax models",
      "only constructs expressible in both formats; actname excluded (no XTA syntax)",
      "runtime monitoring: differential comparison of two front ends on generated models (sanitizer build)")
claim("C08", "exploration",
      "the invariant walker (harness/invariants.cpp) visits every reachable object after every parse of valid, "
      "error-recovered and exception-ending XML and XTA inputs (incl. edge endpoints naming non-locations, process sets listed in the "
      "system line through chains of partial instantiations), under ASan so "
      "that dangling user-data pointers are reports",
      "public API traversal only; LSC-specific containers are not walked",
      "runtime monitoring: structural invariant walker at quiescent points after each parse (sanitizer build)")

claim("C19", "exploration",
      "algebraic laws of clone_deeper/subst/equal/get_size evaluated on every sub-expression of generated "
      "expressions, queries and model labels inside the ASan build, with single-node perturbations built through "
      "the public factories; every cloning entry point (incl. the two-frame overload on edge labels) must return an independent, equal tree",
      "laws are checked on parsed trees only; hook H2 exposes the stored child count",
      "runtime monitoring: law checker over live expression trees (assertions on hooked state, sanitizer build)")
claim("C20", "exploration",
      "accepted generated models written with write_XML_file and read back with Python's ElementTree; graph, flags "
      "and label texts compared with the Document dumped in the same process",
      "ElementTree as independent XML reader; label texts compared with the library's own str() of the document",
      "runtime monitoring: output monitor comparing the written file with the recorded Document (independent reader)")

claim("C10", "exploration",
      "boolean formula trees over integer predicates, clock bounds (integer and floating point) and clock disequalities "
      "(exhaustive to depth 2, all connective pairs at depth 3, sampled to depth 4, plus "
      "plain conjunctions) placed as guard and as invariant; a reference classifier written from the statement says "
      "which must be rejected",
      "soundness demanded for every tree, completeness only for conjunctions of individually accepted atoms",
      "runtime monitoring: reference classifier vs recorded accept/reject verdicts (generated formulas, sanitizer build)")
claim("C11", "fault_enumeration",
      "every listed side-effect free context crossed with every write form (assignment operators, ++/--, element and "
      "field writes, writer functions through call chains, every statement form, reference parameters) nested in "
      "several wrappers, each with side-effect free twins as controls",
      "enumeration over the listed contexts and forms; by-construction oracle",
      "runtime monitoring: paired-model enumeration (write form vs pure twin) with recorded verdicts")
claim("C12", "fault_enumeration",
      "constness sources x write forms (incl. inline-if lvalues in both orders, comma, reference arguments to "
      "functions, forwarding functions, template and partial instantiations), each with a mutable twin",
      "enumeration over listed sources/forms to index/field depth 3",
      "runtime monitoring: paired-model enumeration (const vs mutable twin) with recorded verdicts")
claim("C13", "fault_enumeration",
      "compile-time contexts x dependency expressions labelled mutable or pure by construction (direct, through "
      "functions with call chains to depth 4, inside if/loops, through parameters), free/bound/forwarded process "
      "parameters in array sizes",
      "reference dependence labels by construction",
      "runtime monitoring: labelled-dependency enumeration with recorded verdicts")
claim("C14", "exploration",
      "all ordered pairs of a 65-expression operand pool under 13 commutative operator spellings and inline-if with "
      "negated condition (verdict and stripped result type kind), all ordered type pairs as (reference parameter, "
      "argument) for functions and templates, inline-if as l-value in both branch orders",
      "depth-1 operand pool is exhaustive; channel capability ordering and range-free const int are excluded by design",
      "runtime monitoring: metamorphic (operand swap) comparison of recorded typing results")
claim("C17", "fault_enumeration",
      "one restricting feature per model at every listed syntactic placement (17 floating-point value sources x 5 clock "
      "operands x use positions x 4 ways of entering the system), plus metamorphic pairs for "
      "uninstantiated templates and declaration order; reported methods compared with the reference detector",
      "only the 'only if' direction is an alarm; over-caution is recorded as an observation",
      "runtime monitoring: feature-placement enumeration with recorded supported-method verdicts")

claim("C06", "fault_enumeration",
      "one fault of each listed kind at random token positions of every kind of text block of generated models, with "
      "layout noise before the site (incl. builder-level and subscript type faults); every diagnostic resolved against an ElementTree DOM of the same bytes (path "
      "selects one element, line/columns inside it), attribution to the faulted element, exact identifier range",
      "ElementTree as independent DOM; columns measured in UTF-8 bytes of the decoded block text",
      "runtime monitoring: fault injection with recorded diagnostics checked against an independent DOM")
claim("C07", "fault_enumeration",
      "the contested name declared at every subset of nine scope levels; 22 use sites per model read back from the "
      "document by frame identity; process-qualified names in queries incl. member types with arguments substituted "
      "through chains of partial instantiations; typedef names at four levels; nested binders; bindings outside a template "
      "after 21 error-recovery situations inside it",
      "reference resolver written from the statement; parameter+local in one template excluded (duplicate definition)",
      "runtime monitoring: reference scope resolver vs recorded symbol owners of parsed IDENTIFIER nodes")
claim("C09", "exploration",
      "generated models (accepted and rejected) re-rendered with redundant parentheses, layout noise, comments, alias "
      "spellings and with all identifiers consistently renamed; messages, supported methods and the canonical "
      "document compared after mapping names back; token-level alias swap over boolean expressions compared by typed tree; "
      "one inner-scope entity named like an outer typedef / global / function versus named freshly",
      "rewrites are produced from the abstract model, so they are meaning preserving by construction",
      "runtime monitoring: metamorphic comparison of recorded results of original and rewritten inputs")
claim("C15", "exploration",
      "every unit (parse call with its input) recorded alone in a fresh process, then replayed inside random sequences "
      "of 2..8 calls in one process (units incl. chained XTA transitions over shared names, over-long identifiers, not-well-formed and "
      "incomplete XML, unknown characters; queries on an older document in mid-sequence), a "
      "quarter with the global position counter seeded near 2^31/2^32; results "
      "compared field by field except absolute positions",
      "fork gives each recording a pristine process image; the counter is seeded through the exported global",
      "runtime monitoring: history independence monitor (sequence vs fresh-process recording of the same call)")
claim("C16", "fault_enumeration",
      "one fault (syntactic incl. abandoned quantifiers, builder-level semantic or type-level) per non-declaring label / declaration of generated models (select label first or last); document compared with the fault-free "
      "parse at the same stage (builder level, and after static analysis for type-level faults) with the faulted "
      "label masked; every diagnostic path compared with the label's path",
      "differential against the fault-free parse; document-wide summary flags belong to the faulted label",
      "runtime monitoring: differential fault-isolation monitor over recorded documents and diagnostics")


def main():
    props = [json.loads(l) for l in open(os.path.join(VERIF, "properties.jsonl"))]
    man = {
        "version": 1,
        "setup_cmd": "/usr/bin/python3 -m vp.setup",
        "hooks": {
            "guard": "UTAP_VERIF",
            "enable": "checks compile /repo/src/*.cpp directly (vp/build.py) with -DUTAP_VERIF; "
                      "with cmake: -DCMAKE_CXX_FLAGS=-DUTAP_VERIF",
            "baseline_off_cmd": "cmake --build /repo/_build && ctest --test-dir /repo/_build -j8 --timeout 900",
            "source_commits": ["4faef14"],
            "add_only": True,
        },
        "engines": [{
            "name": "vp", "path": "/verif/vp", "serves_properties": sorted(CHECKS),
            "kind_free_text": "runtime monitoring: fork-isolated ASan/UBSan/_GLIBCXX_ASSERTIONS driver "
                              "(harness/*.cpp) + generators and reference oracles (python3 stdlib)"}],
        "checks": [],
        "notes": "see DESIGN.md; every check rebuilds the instrumented library from /repo's working tree "
                 "(cache keyed by source hash under /verif/.build)",
        "not_applicable": [],
    }
    for p in props:
        pid = p["id"]
        if pid in CHECKS:
            cat, text, note, tech = CHECKS[pid]
            man["checks"].append({
                "property_id": pid,
                "quick_cmd": "./check %s --tier quick" % pid,
                "thorough_cmd": "./check %s --tier thorough" % pid,
                "evidence_file": "/verif/evidence/%s.json" % pid,
                "replay_cmd_template": "./check %s --replay {path}" % pid,
                "engine": "vp",
                "level_claimed": {"category": cat, "text": text, "design_ref": "DESIGN.md section 3 (" + pid + "), 7b and 7c"},
                "level_note": note,
                "technique": tech,
            })
        else:
            man["not_applicable"].append({
                "property_id": pid,
                "reason": NOT_APPLICABLE.get(pid, "not claimed yet: monitor under construction in this session")})
    with open(os.path.join(VERIF, "MANIFEST.json"), "w") as f:
        json.dump(man, f, indent=1)
    print("MANIFEST.json: %d checks, %d not claimed" % (len(man["checks"]), len(man["not_applicable"])))


if __name__ == "__main__":
    main()
