"""C12 - no accepted model writes to a constant.

Oracle by construction: pairs of models that differ only in whether the written object is const; the const variant
must be rejected, the mutable twin accepted."""
import random

from .. import accept, xmlgen

TYPES = """
typedef struct { int f; int k; } S;
typedef struct { S s; int n; S q[2]; } T2;
typedef const int cint_t;
typedef int mint_t;
bool b;
int h;
void setref(int &r) { r = 1; }
void setS(S &r) { r.f = 1; }
void fwd(int &r) { setref(r); }
int[0,5] hb;
void setrefb(int[0,5] &r) { r = 1; }
void fwdb(int[0,5] &r) { setrefb(r); }
"""
# (name, declarations, const lvalue, mutable lvalue) - all int-typed lvalues
GLOBAL_SOURCES = [
    ("const-scalar", "const int c = 1; int v = 1;", "c", "v"),
    ("const-array-element", "const int ca[2] = { 1, 2 }; int va[2] = { 1, 2 };", "ca[0]", "va[0]"),
    ("const-array-element-var-index", "const int ca[2] = { 1, 2 }; int va[2] = { 1, 2 };", "ca[h]", "va[h]"),
    ("const-2d-array-element", "const int cm[2][2] = { { 1, 2 }, { 3, 4 } }; int vm[2][2];", "cm[1][0]", "vm[1][0]"),
    ("const-struct-field", "const S cs = { 1, 2 }; S vs = { 1, 2 };", "cs.f", "vs.f"),
    ("array-of-const-struct", "const S csa[2] = { { 1, 2 }, { 3, 4 } }; S vsa[2];", "csa[1].k", "vsa[1].k"),
    ("nested-const-struct", "const T2 ct = { { 1, 2 }, 3, { { 4, 5 }, { 6, 7 } } }; T2 vt;", "ct.s.f", "vt.s.f"),
    ("nested-const-struct-array", "const T2 ct = { { 1, 2 }, 3, { { 4, 5 }, { 6, 7 } } }; T2 vt;", "ct.q[1].k", "vt.q[1].k"),
    ("typedef-const", "cint_t tc = 3; mint_t tv = 3;", "tc", "tv"),
    ("const-bounded", "const int[0,5] cb = 2; int[0,5] vb = 2;", "cb", "vb"),
]
INT_WRITES = ["%s = 1", "%s := 1", "%s += 1", "%s -= 1", "%s *= 2", "%s /= 2", "%s %%= 2", "%s |= 1", "%s &= 1", "%s ^= 1",
              "%s <<= 1", "%s >>= 1", "%s++", "%s--", "++%s", "--%s", "setref(%s)", "fwd(%s)", "h = (%s = 2)", "h = %s++"]


def model(decls, stmt, where):
    decl = TYPES + decls
    if where == "function":
        return xmlgen.simple_model(decl=decl + "\nvoid t() { %s; }" % stmt)
    if where == "update":
        return xmlgen.simple_model(decl=decl, edges=[("id0", "id0", [("assignment", stmt)])])
    if where == "for-clause":
        return xmlgen.simple_model(decl=decl + "\nvoid t() { int i; for (i = 0; i < 1; %s) { i++; } }" % stmt)
    raise ValueError(where)


def run(rep, tier, seed):
    rep.level = "fault_enumeration"
    rng = random.Random(seed * 1000003 + 12)
    quick = tier == "quick"
    pairs = []      # (source, form, const model, mutable model)
    for name, decls, cl, ml in GLOBAL_SOURCES:
        bounded = name == "const-bounded"
        other = "hb" if bounded else "h"
        for w in INT_WRITES:
            if bounded:
                w = w.replace("setref(", "setrefb(").replace("fwd(", "fwdb(")
            for where in ("function", "update", "for-clause"):
                pairs.append((name, w + "@" + where, model(decls, w % cl, where), model(decls, w % ml, where)))
        # through an inline-if on the left-hand side, either branch
        sr = "setrefb" if bounded else "setref"
        for pat in ("(b ? %s : OTHER) = 1", "(b ? OTHER : %s) = 1", "(b ? %s : OTHER) += 1", "(b ? OTHER : %s)++",
                    "SETREF(b ? %s : OTHER)", "SETREF(b ? OTHER : %s)"):
            pat = pat.replace("OTHER", other).replace("SETREF", sr)
            pairs.append((name, "inline-if:" + pat.replace("%s", "X"), model(decls, pat % cl, "function"), model(decls, pat % ml, "function")))
        # after a comma (update list element)
        pairs.append((name, "comma", model(decls, "h = 1, %s = 2" % cl, "update"), model(decls, "h = 1, %s = 2" % ml, "update")))
        # reference argument to a template instantiation / partial instantiation
        for systpl in ("P1 = P(%s);\nsystem P1;", "Q() = P(%s);\nQ1 = Q();\nsystem Q1;"):
            if "var-index" in name:
                continue        # a reference argument of an instantiation must itself be computable at compile time
            mk = lambda lv: xmlgen.simple_model(decl=TYPES + decls, params="int[0,5] &r" if bounded else "int &r", edges=[("id0", "id0", [("assignment", "r = 1")])],
                                                system=systpl % lv)
            pairs.append((name, "template-ref-arg:" + systpl.split("=")[0].strip(), mk(cl), mk(ml)))
    # whole-struct writes
    sd = "const S cs = { 1, 2 }; S vs = { 1, 2 }; S other;"
    for w in ("%s = other", "setS(%s)"):
        pairs.append(("const-struct-whole", w, model(sd, w % "cs", "function"), model(sd, w % "vs", "function")))
    # parameters and locals
    pairs.append(("const-function-parameter", "=", xmlgen.simple_model(decl=TYPES + "void t(const int p) { p = 1; }"),
                  xmlgen.simple_model(decl=TYPES + "void t(int p) { p = 1; }")))
    pairs.append(("const-function-parameter", "++", xmlgen.simple_model(decl=TYPES + "void t(const int p) { p++; }"),
                  xmlgen.simple_model(decl=TYPES + "void t(int p) { p++; }")))
    pairs.append(("const-ref-function-parameter", "=", xmlgen.simple_model(decl=TYPES + "void t(const int &p) { p = 1; }"),
                  xmlgen.simple_model(decl=TYPES + "void t(int &p) { p = 1; }")))
    pairs.append(("const-ref-function-parameter", "setref", xmlgen.simple_model(decl=TYPES + "void t(const int &p) { setref(p); }"),
                  xmlgen.simple_model(decl=TYPES + "void t(int &p) { setref(p); }")))
    pairs.append(("const-local", "=", xmlgen.simple_model(decl=TYPES + "void t() { const int l = 1; l = 2; }"),
                  xmlgen.simple_model(decl=TYPES + "void t() { int l = 1; l = 2; }")))
    pairs.append(("const-local-array", "=", xmlgen.simple_model(decl=TYPES + "void t() { const int l[2] = { 1, 2 }; l[0] = 2; }"),
                  xmlgen.simple_model(decl=TYPES + "void t() { int l[2] = { 1, 2 }; l[0] = 2; }")))
    for w in ("p = 1", "p += 2", "p++", "setref(p)"):
        mk = lambda ptype: xmlgen.simple_model(decl=TYPES + "int g;", params=ptype, edges=[("id0", "id0", [("assignment", w)])],
                                               system="P1 = P(%s);\nsystem P1;" % ("3" if "const" in ptype else "g"))
        pairs.append(("const-template-parameter", w, mk("const int p"), mk("int &p")))
    # binders: no mutable twin exists, the accepted control is the same statement on a plain variable
    for w in ("k = 1", "k++", "k += 1", "setref(k)"):
        pairs.append(("select-binder", w,
                      xmlgen.simple_model(decl=TYPES, edges=[("id0", "id0", [("select", "k : int[0,3]"), ("assignment", w)])]),
                      xmlgen.simple_model(decl=TYPES + "int k;", edges=[("id0", "id0", [("assignment", w)])])))
        pairs.append(("iteration-binder", w, xmlgen.simple_model(decl=TYPES + "void t() { for (k : int[0,3]) { %s; } }" % w),
                      xmlgen.simple_model(decl=TYPES + "int k; void t() { for (z : int[0,3]) { %s; } }" % w)))
    for q in ("forall", "exists", "sum"):
        body = "(k = 1) > 0" if q != "sum" else "(k = 1)"
        ctl = "(k + 1) > 0" if q != "sum" else "(k + 1)"
        wrap = "b = %s (k : int[0,1]) %s" if q != "sum" else "h = %s (k : int[0,1]) %s"
        pairs.append(("%s-binder" % q, "=", model("", wrap % (q, body), "update"), model("", wrap % (q, ctl), "update")))
    models = []
    for _, _, cm, mm in pairs:
        models += [cm, mm]
    vs = accept.verdicts(models, tag="c12")
    for i, (src, form, cm, mm) in enumerate(pairs):
        vc, vm = vs[2 * i], vs[2 * i + 1]
        if vc["crash"] is not None or vm["crash"] is not None:
            rep.crash(vc["crash"] or vm["crash"], vc["case"] if vc["crash"] else vm["case"])
            rep.observe(None)
            continue
        rep.observe((src, form))
        if vc["accepted"]:
            rep.violation("C12:const-write-accepted:%s:%s" % (src, form.split("@")[0].replace("%s", "X")),
                          "write to a constant accepted (source %s, form %s)" % (src, form), vc["case"])
        if not vm["accepted"]:
            rep.violation("C12:mutable-twin-rejected:%s:%s" % (src, form.split("@")[0].replace("%s", "X")),
                          "the same operation on a mutable object is rejected (source %s, form %s): %s" % (src, form, vm["errors"][:2]), vm["case"])
    rep.sample({"source": pairs[0][0], "form": pairs[0][1]})
    rep.rule = ("constness sources (const scalar, array element, struct field, array of const struct, nested, typedef'd "
                "const, bounded const, const parameters of functions and templates, const locals, select/iteration/"
                "quantifier binders) x write forms (all assignment operators, ++/--, inline-if lvalue in both branch "
                "orders, comma, reference argument to function / forwarding function / template instantiation / partial "
                "instantiation), each with a mutable twin; distinct = (source, form, placement)")


def replay(data):
    from ..runner import Case, run_cases
    import json
    c = Case.from_json(data["case"])
    print(json.dumps(run_cases([c])[c.id], indent=1)[:6000])
