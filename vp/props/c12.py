"""C12 - no accepted model writes to a constant.

Oracle by construction: pairs of models that differ only in whether the written object is const; the const variant
must be rejected, the mutable twin accepted."""
import random

from .. import accept, xmlgen

TYPES = """
typedef struct { int f; int k; } S;
typedef struct { S s; int n; S q[2]; } T2;
typedef const int cint_t;
typedef int mint_t;
bool b;
int h;
void setref(int &r) { r = 1; }
void setS(S &r) { r.f = 1; }
void fwd(int &r) { setref(r); }
int[0,5] hb;
void setrefb(int[0,5] &r) { r = 1; }
void fwdb(int[0,5] &r) { setrefb(r); }
"""
# (name, declarations, const lvalue, mutable lvalue) - all int-typed lvalues
GLOBAL_SOURCES = [
    ("const-scalar", "const int c = 1; int v = 1;", "c", "v"),
    ("const-array-element", "const int ca[2] = { 1, 2 }; int va[2] = { 1, 2 };", "ca[0]", "va[0]"),
    ("const-array-element-var-index", "const int ca[2] = { 1, 2 }; int va[2] = { 1, 2 };", "ca[h]", "va[h]"),
    ("const-2d-array-element", "const int cm[2][2] = { { 1, 2 }, { 3, 4 } }; int vm[2][2];", "cm[1][0]", "vm[1][0]"),
    ("const-struct-field", "const S cs = { 1, 2 }; S vs = { 1, 2 };", "cs.f", "vs.f"),
    ("array-of-const-struct", "const S csa[2] = { { 1, 2 }, { 3, 4 } }; S vsa[2];", "csa[1].k", "vsa[1].k"),
    ("nested-const-struct", "const T2 ct = { { 1, 2 }, 3, { { 4, 5 }, { 6, 7 } } }; T2 vt;", "ct.s.f", "vt.s.f"),
    ("nested-const-struct-array", "const T2 ct = { { 1, 2 }, 3, { { 4, 5 }, { 6, 7 } } }; T2 vt;", "ct.q[1].k", "vt.q[1].k"),
    ("typedef-const", "cint_t tc = 3; mint_t tv = 3;", "tc", "tv"),
    ("const-bounded", "const int[0,5] cb = 2; int[0,5] vb = 2;", "cb", "vb"),
]
INT_WRITES = ["%s = 1", "%s := 1", "%s += 1", "%s -= 1", "%s *= 2", "%s /= 2", "%s %%= 2", "%s |= 1", "%s &= 1", "%s ^= 1",
              "%s <<= 1", "%s >>= 1", "%s++", "%s--", "++%s", "--%s", "setref(%s)", "fwd(%s)", "h = (%s = 2)", "h = %s++"]


def model(decls, stmt, where):
    decl = TYPES + decls
    if where == "function":
        return xmlgen.simple_model(decl=decl + "\nvoid t() { %s; }" % stmt)
    if where == "update":
        return xmlgen.simple_model(decl=decl, edges=[("id0", "id0", [("assignment", stmt)])])
    if where == "after-return":
        return xmlgen.simple_model(decl=decl + "\nvoid t() { h = 1; return; %s; }" % stmt)
    if where == "after-if-else-return":
        return xmlgen.simple_model(decl=decl + "\nint t() { if (b) { return 1; } else { return 2; } %s; return 3; }" % stmt)
    if where == "nested-after-return":
        return xmlgen.simple_model(decl=decl + "\nvoid t() { { return; } %s; }" % stmt)
    body = {"if-body": "if (b) { %s; }", "else-branch": "if (b) { h = 1; } else { %s; }", "while-body": "while (h < 2) { %s; h++; }",
            "do-body": "do { %s; h++; } while (h < 2);", "nested-block": "{ { { %s; } } }", "iteration-body": "for (qz : int[0,1]) { %s; }",
            "for-init": "for (%s; h < 2; h++) { }", "if-condition": "if ((%s) > 0) { h = 1; }", "return-expression": "h = 1; return; h = (%s);"}
    if where in body:
        return xmlgen.simple_model(decl=decl + "\nvoid t() { %s }" % (body[where] % stmt))
    if where == "for-clause":
        return xmlgen.simple_model(decl=decl + "\nvoid t() { int i; for (i = 0; i < 1; %s) { i++; } }" % stmt)
    raise ValueError(where)


def run(rep, tier, seed):
    rep.level = "fault_enumeration"
    rng = random.Random(seed * 1000003 + 12)
    quick = tier == "quick"
    pairs = []      # (source, form, const model, mutable model)
    for name, decls, cl, ml in GLOBAL_SOURCES:
        bounded = name == "const-bounded"
        other = "hb" if bounded else "h"
        for w in INT_WRITES:
            if bounded:
                w = w.replace("setref(", "setrefb(").replace("fwd(", "fwdb(")
            for where in ("function", "update", "for-clause"):
                pairs.append((name, w + "@" + where, model(decls, w % cl, where), model(decls, w % ml, where)))
            if not quick or w in ("%s = 1", "%s++"):
                # every statement position of a function body (quick: two write forms, thorough: all of them)
                for where in ("if-body", "else-branch", "while-body", "do-body", "nested-block", "iteration-body", "for-init", "if-condition"):
                    if where == "if-condition" and ("setref" in w or "fwd" in w):
                        continue        # void call in a condition
                    pairs.append((name, w + "@" + where, model(decls, w % cl, where), model(decls, w % ml, where)))
            if w in ("%s = 1", "%s++", "setref(%s)", "%s += 1"):
                # statements the control flow cannot reach are still part of the model
                for where in ("after-return", "after-if-else-return", "nested-after-return"):
                    pairs.append((name, w + "@" + where, model(decls, w % cl, where), model(decls, w % ml, where)))
        # the write next to an operand that is itself questionable (rejected or warned about for another reason): the
        # write to the constant must not become acceptable through it; the twin need not be accepted
        for w in ("%s = abs(dd)", "%s += 1 + abs(dd)", "%s = fpclassify(dd)", "%s = 1 / 0", "%s = h, h", "setref2(%s, abs(dd))"):
            decls2 = decls + " double dd; void setref2(int &r, int v) { r = v; }"
            if bounded:
                decls2 = decls2.replace("void setref2(int &r", "void setref2(int[0,5] &r")
            pairs.append((name, w + "@function", model(decls2, w % cl, "function"), model(decls2, w % ml, "function"), False))
            pairs.append((name, w + "@update", model(decls2, w % cl, "update"), model(decls2, w % ml, "update"), False))
        # through an inline-if on the left-hand side, either branch
        sr = "setrefb" if bounded else "setref"
        for pat in ("(b ? %s : OTHER) = 1", "(b ? OTHER : %s) = 1", "(b ? %s : OTHER) += 1", "(b ? OTHER : %s)++",
                    "SETREF(b ? %s : OTHER)", "SETREF(b ? OTHER : %s)"):
            pat = pat.replace("OTHER", other).replace("SETREF", sr)
            pairs.append((name, "inline-if:" + pat.replace("%s", "X"), model(decls, pat % cl, "function"), model(decls, pat % ml, "function")))
        # after a comma (update list element)
        pairs.append((name, "comma", model(decls, "h = 1, %s = 2" % cl, "update"), model(decls, "h = 1, %s = 2" % ml, "update")))
        # reference argument to a template instantiation / partial instantiation
        for systpl in ("P1 = P(%s);\nsystem P1;", "Q() = P(%s);\nQ1 = Q();\nsystem Q1;"):
            if "var-index" in name:
                continue        # a reference argument of an instantiation must itself be computable at compile time
            mk = lambda lv: xmlgen.simple_model(decl=TYPES + decls, params="int[0,5] &r" if bounded else "int &r", edges=[("id0", "id0", [("assignment", "r = 1")])],
                                                system=systpl % lv)
            pairs.append((name, "template-ref-arg:" + systpl.split("=")[0].strip(), mk(cl), mk(ml)))
    # whole-struct writes
    sd = "const S cs = { 1, 2 }; S vs = { 1, 2 }; S other;"
    for w in ("%s = other", "setS(%s)"):
        pairs.append(("const-struct-whole", w, model(sd, w % "cs", "function"), model(sd, w % "vs", "function")))
    # parameters and locals
    pairs.append(("const-function-parameter", "=", xmlgen.simple_model(decl=TYPES + "void t(const int p) { p = 1; }"),
                  xmlgen.simple_model(decl=TYPES + "void t(int p) { p = 1; }")))
    pairs.append(("const-function-parameter", "++", xmlgen.simple_model(decl=TYPES + "void t(const int p) { p++; }"),
                  xmlgen.simple_model(decl=TYPES + "void t(int p) { p++; }")))
    pairs.append(("const-ref-function-parameter", "=", xmlgen.simple_model(decl=TYPES + "void t(const int &p) { p = 1; }"),
                  xmlgen.simple_model(decl=TYPES + "void t(int &p) { p = 1; }")))
    pairs.append(("const-ref-function-parameter", "setref", xmlgen.simple_model(decl=TYPES + "void t(const int &p) { setref(p); }"),
                  xmlgen.simple_model(decl=TYPES + "void t(int &p) { setref(p); }")))
    pairs.append(("const-local", "=", xmlgen.simple_model(decl=TYPES + "void t() { const int l = 1; l = 2; }"),
                  xmlgen.simple_model(decl=TYPES + "void t() { int l = 1; l = 2; }")))
    pairs.append(("const-local-array", "=", xmlgen.simple_model(decl=TYPES + "void t() { const int l[2] = { 1, 2 }; l[0] = 2; }"),
                  xmlgen.simple_model(decl=TYPES + "void t() { int l[2] = { 1, 2 }; l[0] = 2; }")))
    for w in ("p = 1", "p += 2", "p++", "setref(p)"):
        mk = lambda ptype: xmlgen.simple_model(decl=TYPES + "int g;", params=ptype, edges=[("id0", "id0", [("assignment", w)])],
                                               system="P1 = P(%s);\nsystem P1;" % ("3" if "const" in ptype else "g"))
        pairs.append(("const-template-parameter", w, mk("const int p"), mk("int &p")))
    # binders: no mutable twin exists, the accepted control is the same statement on a plain variable
    for w in ("k = 1", "k++", "k += 1", "setref(k)"):
        pairs.append(("select-binder", w,
                      xmlgen.simple_model(decl=TYPES, edges=[("id0", "id0", [("select", "k : int[0,3]"), ("assignment", w)])]),
                      xmlgen.simple_model(decl=TYPES + "int k;", edges=[("id0", "id0", [("assignment", w)])])))
        pairs.append(("iteration-binder", w, xmlgen.simple_model(decl=TYPES + "void t() { for (k : int[0,3]) { %s; } }" % w),
                      xmlgen.simple_model(decl=TYPES + "int k; void t() { for (z : int[0,3]) { %s; } }" % w)))
    # binders that shadow a visible name of a mutable variable (global, template local, template parameter)
    for w in ("k = 1", "k++", "k += 1", "setref(k)", "setrefb(k)"):
        for where, kw in (("global", {"decl": TYPES + "int k;"}), ("template-local", {"decl": TYPES, "tdecl": "int k;"}),
                          ("template-parameter", {"decl": TYPES + "int gg;", "params": "int &k", "system": "P1 = P(gg);\nsystem P1;"})):
            sel = "k : int[0,5]" if "setrefb" in w else "k : int[0,3]"
            if "setref(" in w:
                sel = "k : int"
                continue
            pairs.append(("shadowing-select-binder:" + where, w,
                          xmlgen.simple_model(edges=[("id0", "id0", [("select", sel), ("assignment", w)])], **kw),
                          xmlgen.simple_model(edges=[("id0", "id0", [("select", "zz : int[0,3]"), ("assignment", w)])], **kw)
                          if "setrefb" not in w else
                          xmlgen.simple_model(decl=TYPES + "int[0,5] k;", edges=[("id0", "id0", [("select", "zz : int[0,3]"), ("assignment", w)])])))
        if "setref" not in w:
            pairs.append(("shadowing-iteration-binder:global", w, xmlgen.simple_model(decl=TYPES + "int k; void t() { for (k : int[0,3]) { %s; } }" % w),
                          xmlgen.simple_model(decl=TYPES + "int k; void t() { for (z : int[0,3]) { %s; } }" % w)))
            pairs.append(("second-select-binder", w,
                          xmlgen.simple_model(decl=TYPES, edges=[("id0", "id0", [("select", "j : int[0,1], k : int[0,3]"), ("assignment", w)])]),
                          xmlgen.simple_model(decl=TYPES + "int k;", edges=[("id0", "id0", [("select", "j : int[0,1]"), ("assignment", w)])])))
    # floating point and boolean constants: every assignment operator must be rejected on the constant; the twin is
    # required to be accepted only for the operators the language defines on that type
    for tname, lit, srcs in (("double", "0.5", [("const-double", "const double cd = 1.5; double vd = 1.5;", "cd", "vd"),
                                                ("const-struct-double-field", "typedef struct { double w; int n; } SD; const SD csd = { 1.5, 2 }; SD vsd;", "csd.w", "vsd.w"),
                                                ("const-double-array", "const double cda[2] = { 1.5, 2.5 }; double vda[2];", "cda[1]", "vda[1]")]),
                             ("bool", "true", [("const-bool", "const bool cbo = true; bool vbo = true;", "cbo", "vbo"),
                                               ("const-bool-array", "const bool cba[2] = { true, false }; bool vba[2];", "cba[0]", "vba[0]")])):
        for name, decls, cl, ml in srcs:
            for op in ("=", "+=", "-=", "*=", "/=", "|=", "&=", "^="):
                for where in ("function", "update"):
                    w = "%s " + op + " " + lit
                    pairs.append((name, w + "@" + where, model(decls, w % cl, where), model(decls, w % ml, where), op == "="))
            if tname == "double":
                pairs.append((name, "ref-arg", model("void setd(double &r) { r = 1.0; }\n" + decls, "setd(%s)" % cl, "function"),
                              model("void setd(double &r) { r = 1.0; }\n" + decls, "setd(%s)" % ml, "function")))
        pairs.append(("const-%s-parameter" % tname, "=", xmlgen.simple_model(decl=TYPES + "void t(const %s p) { p = %s; }" % (tname, lit)),
                      xmlgen.simple_model(decl=TYPES + "void t(%s p) { p = %s; }" % (tname, lit))))
    # constants handed to reference parameters of templates through (chains of) partial instantiations that keep
    # parameters of their own: every argument position, also the ones behind the forwarded parameters
    gd = TYPES + "const int c = 1; int v = 1; const int K = 2;"
    for npar, refpos in ((2, 1), (2, 0), (3, 2), (3, 1)):
        plist = ", ".join("int &r%d" % i if i == refpos else "const int[0,3] k%d" % i for i in range(npar))
        upd = "r%d = 1" % refpos
        for own in (1, 2):
            if own >= npar:
                continue
            own_idx = [i for i in range(npar) if i != refpos][:own]
            if len(own_idx) < own:
                continue
            qpars = ", ".join("const int[0,3] id%d" % i for i in own_idx)
            def args(lv):
                return ", ".join(lv if i == refpos else ("id%d" % i if i in own_idx else "K") for i in range(npar))
            def mk(lv):
                return xmlgen.simple_model(decl=gd, params=plist, edges=[("id0", "id0", [("assignment", upd)])],
                                           system="Q(%s) = P(%s);\nsystem Q;" % (qpars, args(lv)))
            pairs.append(("const-scalar", "partial-instance-ref-arg:%d-params-ref-at-%d-own-%d" % (npar, refpos, own), mk("c"), mk("v")))
    # the reference itself forwarded through a partial instantiation and bound to a constant one level up
    def mk2(lv):
        return xmlgen.simple_model(decl=gd, params="int &r0, const int[0,3] k1", edges=[("id0", "id0", [("assignment", "r0 = 1")])],
                                   system="Q(int &x) = P(x, K);\nR = Q(%s);\nsystem R;" % lv)
    pairs.append(("const-scalar", "partial-instance-forwarded-ref", mk2("c"), mk2("v")))
    def mk3(lv):
        return xmlgen.simple_model(decl=gd, params="const int[0,3] k0, int &r1", edges=[("id0", "id0", [("assignment", "r1 = 1")])],
                                   system="Q(const int[0,3] a, int &x) = P(a, x);\nQ2(const int[0,3] b) = Q(b, %s);\nsystem Q2;" % lv)
    pairs.append(("const-scalar", "partial-instance-chain-ref-arg", mk3("c"), mk3("v")))
    # dynamic templates: a parameter declared / defined const and written in the body; constants handed to the
    # reference parameter of a dynamic template by spawn
    def dyn(decl_par, def_par, body_upd, spawn_arg=None, extra=""):
        d = TYPES + "const int c = 1; int v = 1; const int ca[2] = { 1, 2 }; int va[2]; const S cs = { 1, 2 }; S vs;" + extra + " dynamic D(%s);" % decl_par
        dt = ('<template><name>D</name><parameter>%s</parameter><declaration/><location id="d0"/><init ref="d0"/><transition><source ref="d0"/>'
              '<target ref="d0"/><label kind="assignment">%s</label></transition></template>' % (xmlgen.esc(def_par), xmlgen.esc(body_upd)))
        x = xmlgen.simple_model(decl=d, edges=[("id0", "id0", [("assignment", "spawn D(%s)" % spawn_arg)])] if spawn_arg else None, extra_templates=dt)
        a = x.index("<template>")
        b = x.index("</template>") + len("</template>")
        return x[:a] + dt + x[a:b] + x[b:].replace(dt, "", 1)       # the defining template first
    for w in ("p = 2", "p++", "--p", "p += 1", "p <<= 1", "h = 1, p = 3", "setref(p)"):
        pairs.append(("dynamic-template-const-parameter", w, dyn("const int p", "const int p", w), dyn("int p", "int p", w)))
        pairs.append(("dynamic-template-parameter-const-in-definition-only", w, dyn("int p", "const int p", w), dyn("int p", "int p", w)))
        pairs.append(("dynamic-template-parameter-const-in-declaration-only", w, dyn("const int p", "int p", w), dyn("int p", "int p", w)))
    for carg, marg in (("c", "v"), ("ca[1]", "va[1]"), ("cs.f", "vs.f"), ("ca[h]", "va[h]")):
        pairs.append(("spawn-reference-argument", carg, dyn("int &r", "int &r", "r = 1", carg), dyn("int &r", "int &r", "r = 1", marg)))
    for q in ("forall", "exists", "sum"):
        body = "(k = 1) > 0" if q != "sum" else "(k = 1)"
        ctl = "(k + 1) > 0" if q != "sum" else "(k + 1)"
        wrap = "b = %s (k : int[0,1]) %s" if q != "sum" else "h = %s (k : int[0,1]) %s"
        pairs.append(("%s-binder" % q, "=", model("", wrap % (q, body), "update"), model("", wrap % (q, ctl), "update")))
    models = []
    pairs = [p if len(p) == 5 else p + (True,) for p in pairs]
    for _, _, cm, mm, _ in pairs:
        models += [cm, mm]
    vs = accept.verdicts(models, tag="c12")
    for i, (src, form, cm, mm, twin_must) in enumerate(pairs):
        vc, vm = vs[2 * i], vs[2 * i + 1]
        if vc["crash"] is not None or vm["crash"] is not None:
            rep.crash(vc["crash"] or vm["crash"], vc["case"] if vc["crash"] else vm["case"])
            rep.observe(None)
            continue
        rep.observe((src, form))
        if vc["accepted"]:
            rep.violation("C12:const-write-accepted:%s:%s" % (src, form.split("@")[0].replace("%s", "X")),
                          "write to a constant accepted (source %s, form %s)" % (src, form), vc["case"])
        if not vm["accepted"] and twin_must:
            rep.violation("C12:mutable-twin-rejected:%s:%s" % (src, form.split("@")[0].replace("%s", "X")),
                          "the same operation on a mutable object is rejected (source %s, form %s): %s" % (src, form, vm["errors"][:2]), vm["case"])
    rep.sample({"source": pairs[0][0], "form": pairs[0][1]})
    rep.rule = ("constness sources (const scalar, array element, struct field, array of const struct, nested, typedef'd "
                "const, bounded const, const parameters of functions and templates, const locals, select/iteration/"
                "quantifier binders) x write forms (all assignment operators, ++/--, inline-if lvalue in both branch "
                "orders, comma, reference argument to function / forwarding function / template instantiation / partial "
                "instantiation), each with a mutable twin; distinct = (source, form, placement)")


def replay(data):
    from ..runner import Case, run_cases
    import json
    c = Case.from_json(data["case"])
    print(json.dumps(run_cases([c])[c.id], indent=1)[:6000])
