"""C06 - every diagnostic points into the element, line and columns that caused it.

Oracle: an independent DOM of the same bytes (Python's ElementTree) plus the injector's knowledge of where the
fault was put."""
import random
import re
import xml.etree.ElementTree as ET

from .. import faults, gen_model as GM, lexer, workloads
from ..runner import Case, Step, run_cases
from ..xmlgen import esc

BLOCK = re.compile(r"<(declaration|parameter|system|label)([^>]*)>([^<]*)</")
NON_DECLARING = ("guard", "invariant", "synchronisation", "assignment", "probability", "exponentialrate")


def unesc(s):
    return s.replace("&lt;", "<").replace("&gt;", ">").replace("&amp;", "&")


def blocks_of(xml):
    out = []
    for m in BLOCK.finditer(xml):
        if not m.group(3).strip():
            continue
        kind = m.group(1)
        if kind == "label":
            k = re.search(r'kind="([^"]*)"', m.group(2))
            kind = "label:" + (k.group(1) if k else "?")
        # ordinal of the element in document order = number of start tags before it
        ordinal = len(re.findall(r"<[A-Za-z_]", xml[:m.start()]))
        out.append({"kind": kind, "span": (m.start(3), m.end(3)), "text": unesc(m.group(3)), "ordinal": ordinal})
    return out


def layout(text, rng):
    """Meaning-preserving layout noise in front of / inside a block."""
    r = rng.random()
    if r < 0.2:
        text = "\n\n" + text
    elif r < 0.35:
        text = "// leading comment\n" + text
    elif r < 0.5:
        text = rng.choice(["/* c1 */ /* multi\nline */ ", "/* a\n   indented last line */ ", "/*\n\t*/", "/* one\n * two\n     */  ", "/* x\n \t y\n  */",
                           "// c\n/* m\n        n */ "]) + text
    elif r < 0.6:
        text = "  \t " + text
    if rng.random() < 0.25:
        toks = lexer.tokenize(text)
        if len(toks) > 2:
            t = toks[rng.randrange(1, len(toks))]
            # line ends of both conventions, alone and in adjacent mixed runs (carriage returns are written as &#13; so
            # that the XML parser does not normalise them away)
            text = text[:t.pos] + rng.choice(["\n", "\\\n", " /* mid */ ", "\r\n", "\n\n  ", " /* mid\n      dle */ ", "/* a\n\t\tb */", "\n\r\n", "\r\n\n", "\r\n\r\n", "\n\r\n\n",
                                              "// c\r\n\n", "\r\n  \r\n"]) + text[t.pos:]
    return text


def _fname(term):
    import re as _re
    return "-".join(_re.findall(r"[A-Za-z_][A-Za-z0-9_]*|[\[\]().?=>]", term)[:5])


def inject(text, kind, rng):
    """Returns (new text, fault name, identifier position or None) or None if the fault does not apply."""
    toks = lexer.tokenize(text)
    ids = [t for t in toks if t.kind == "id" and t.text not in lexer.KEYWORDS]
    fault = rng.choice(["undeclared", "undeclared", "drop-operand", "unbalanced", "stray", "type-error", "side-effect",
                        "unterminated-comment", "semantic", "semantic", "abandoned-quantifier"])
    if fault == "abandoned-quantifier":
        # the block ends (or goes wrong) after the header of a quantifier was read: the scope the header opened is
        # still open when the parser gives up
        q = rng.choice(["forall (qz : int[0,2]) g0 >=", "exists (qz : int[0,1]) (g0 > ", "forall (qz : int[0,1]) forall (qy : int[0,1]) qz +",
                        "(sum (qz : int[0,2]) g0 *) > 1", "forall (qz : int[0,2]) g0 >= qz )"])
        if kind in ("label:guard", "label:invariant"):
            return (text + " && " + q) if rng.random() < 0.7 else (q + " && " + text), fault, None
        if kind == "label:assignment":
            if q.endswith(")"):
                return None         # "g0 = (" in front would close it again
            return text + ", g0 = (" + q, fault, None
        return None
    if fault == "semantic":
        # errors raised by the builders while the block is being parsed (the grammar goes on after them) and type
        # errors found later by the type checker, at a random conjunct / list position
        bool_terms = ["(forall (qz : bool) qz)", "(exists (qz : clock) true)", "((sum (qz : bool) 1) > 0)", "(forall (qz : nosuchtype) (true))",
                      "(g0.nofield > 0)", "(N(1) > 0)", "(g0[1] > 0)", "(c0 > 1)", "(forall (qz : int[0,1]) qz.f > 0)", "(exists (qz : N) (qz.x > 0))",
                      "(numOf(g0) > 0)", "(gx0[0] > 1)", "(ga[gx0] > 0)", "(ga[c0] > 0)", "(ga[1.5] > 0)", "(ga[gx0 - gx0] > 0)", "(N[0] > 0)", "(ga[0][1] > 0)", "(N.x.y > 0)", "(abs(1, 2) > 0)", "(g0 ? 1 : c0)", "(gx0 > c0)", "(g0 == c0)"]
        upd_terms = ["g0 = (forall (qz : bool) qz)", "g0 = g0.nofield", "g0 = N(1)", "g0[1] = 2", "N = 3", "g0 = c0", "c0 = 1", "g0 = sum (qz : clock) 1",
                     "spawn N(1)", "exit()", "g0 = numOf(g0)", "gx0 = gx0[1]", "g0 = abs(1, 2)", "N++", "g0 = ga[gx0]", "ga[1.5] = 1", "g0 = N[1]", "ga[c0] = 2", "g0 = (exists (qz : nosuchtype) (true))"]
        if kind in ("label:guard", "label:invariant"):
            parts = [p for p in text.split("&&")]
            term = rng.choice(bool_terms)
            k = rng.randint(0, len(parts))
            if any(ch in text for ch in "?:") or "||" in text or "forall" in text or "exists" in text:
                return text + " && " + term, fault + ":" + _fname(term), None
            parts.insert(k, " " + term + " ")
            return "&&".join(parts), fault + ":" + _fname(term), None
        if kind == "label:assignment":
            term = rng.choice(upd_terms)
            if rng.random() < 0.5:
                return term + ", " + text, fault + ":" + term.split()[0], None
            return text + ", " + term, fault + ":" + term.split()[0], None
        return None
    if fault == "undeclared":
        uses = ids
        if kind in ("declaration", "parameter", "label:select", "system"):
            # only identifiers that are certainly uses: right of '=' up to the next ';' or ','
            uses = []
            after_eq = False
            for i, t in enumerate(toks):
                if t.text == "=":
                    after_eq = True
                elif t.text in (";", ",", "{", "}"):
                    after_eq = False
                elif after_eq and t.kind == "id" and t.text not in lexer.KEYWORDS:
                    # a name followed by '(' (possibly after a line continuation) is a template or function name, not a
                    # plain use
                    j = i + 1
                    while j < len(toks) and toks[j].text == "\\":
                        j += 1
                    if not (j < len(toks) and toks[j].text == "("):
                        uses.append(t)
        uses = [t for t in uses if not (toks.index(t) > 0 and toks[toks.index(t) - 1].text == ".")]
        if not uses:
            return None
        t = rng.choice(uses)
        name = rng.choice(["zzq", "undeclared_identifier_x", "q9", "Zz"])
        new = text[:t.pos] + name + text[t.pos + len(t.text):]
        line, col = lexer.line_col(new.replace("\r\n", "\n"), len(new[:t.pos].replace("\r\n", "\n")))
        return new, fault, (line, col, col + len(name), name)
    if fault == "drop-operand":
        # the right operand of an operator that cannot be read as unary/postfix, followed by something that cannot
        # start an operand: its removal is certainly a syntax error
        binops = ("*", "/", "%", "<", ">", "<=", ">=", "==", "!=", "&&", "||")
        enders = (")", "]", ";", ",", "&&", "||", "?", ":")
        cands = [t for i, t in enumerate(toks) if t.kind in ("id", "num") and i > 0 and toks[i - 1].text in binops
                 and (i + 1 == len(toks) or toks[i + 1].text in enders)]
        if not cands:
            return None
        t = rng.choice(cands)
        return text[:t.pos] + text[t.pos + len(t.text):], fault, None
    if fault == "unbalanced":
        br = [t for t in toks if t.text in ("(", ")", "[", "]", "{", "}")]
        if br and rng.random() < 0.6:
            t = rng.choice(br)
            return text[:t.pos] + text[t.pos + 1:], fault, None
        t = rng.choice(toks)
        return text[:t.pos] + rng.choice(["(", "[", ")"]) + " " + text[t.pos:], fault, None
    if fault == "stray":
        t = rng.choice(toks)
        return text[:t.pos] + " " + rng.choice([")", "? :", "@", "$$", "= =", "->", "}"]) + " " + text[t.pos:], fault, None
    if fault == "unterminated-comment":
        t = rng.choice(toks)
        if "*/" in text[t.pos:]:
            return None         # a later comment would close it: not a fault
        return text[:t.pos] + "/* " + text[t.pos:], fault, None
    if kind in ("label:guard", "label:invariant"):
        if fault == "type-error":
            return text + " && (c0 == 1)", fault, None
        return text + " && ((g0 = 1) > 0)", fault, None
    if kind == "label:assignment":
        if fault == "type-error":
            return text + ", N = c0", fault, None
        return None
    return None


def check_structure(rep, root, elements, diags, case, what, dtd_invalid=False):
    """Clauses 1-3 for every diagnostic; returns the list of resolved elements (None where unresolved).
    dtd_invalid: the input was damaged structurally (duplicated / inserted / renamed elements), so it may contain two
    <declaration>, <system>, ... siblings; a path step without index cannot single one of them out, and such inputs
    are not models in the sense of the property: an ambiguous path is then counted as an observation only."""
    resolved = []
    for d in diags:
        path = d["path"]
        el = None
        if path.startswith("/nta"):
            rest = path[4:]
            try:
                found = root.findall("." + rest) if rest else [root]
            except SyntaxError:
                found = []
            if len(found) > 1 and dtd_invalid:
                rep.extra["ambiguous_paths_in_structurally_damaged_inputs"] = rep.extra.get("ambiguous_paths_in_structurally_damaged_inputs", 0) + 1
                resolved.append(None)
                continue
            if len(found) != 1:
                rep.violation("C06:path-selects-%d-elements:%s" % (min(len(found), 2), re.sub(r"\[\d+\]", "[]", path)),
                              "%s: diagnostic %r has path %r which selects %d elements" % (what, d["msg"], path, len(found)), case)
                resolved.append(None)
                continue
            el = found[0]
        elif path == "":
            rep.violation("C06:empty-path-in-xml", "%s: diagnostic %r carries an empty path for XML input" % (what, d["msg"]), case)
            resolved.append(None)
            continue
        else:
            rep.violation("C06:path-not-rooted", "%s: diagnostic %r has path %r" % (what, d["msg"], path), case)
            resolved.append(None)
            continue
        resolved.append(el)
        text = (el.text or "")
        lines = text.split("\n")
        n = max(1, len(lines))
        tagkey = re.sub(r"\[\d+\]", "", path.split("/")[-1])
        if not (1 <= d["line"] <= n and 1 <= d["eline"] <= n and d["line"] <= d["eline"]):
            rep.violation("C06:line-outside-element:%s" % tagkey, "%s: %r at line %d..%d but <%s> has %d lines" % (
                what, d["msg"], d["line"], d["eline"], path, n), case)
            continue
        l1 = len(lines[d["line"] - 1].encode("utf-8")) if lines else 0
        l2 = len(lines[d["eline"] - 1].encode("utf-8")) if lines else 0
        if not (0 <= d["col"] <= max(l1, 1) and 0 <= d["ecol"] <= max(l2, 1)) or (d["line"] == d["eline"] and d["col"] > d["ecol"]):
            rep.violation("C06:column-outside-line:%s" % tagkey, "%s: %r at %d:%d-%d:%d, lines have %d/%d bytes (%s)" % (
                what, d["msg"], d["line"], d["col"], d["eline"], d["ecol"], l1, l2, path), case)
    return resolved


def run(rep, tier, seed):
    rep.level = "fault_enumeration"
    rng = random.Random(seed * 1000003 + 6)
    quick = tier == "quick"
    n = 15000 if quick else 120000
    mg = GM.ModelGen(rng, 3, 5, 8)
    items = []
    base_models = []
    while len(items) < n:
        m = mg.model()
        xml = GM.render_xml(m, rng, empty_elems=rng.random() < 0.5)
        bl = blocks_of(xml)
        for _ in range(12):
            b = rng.choice(bl)
            txt = layout(b["text"], rng)
            inj = inject(txt, b["kind"], rng)
            if inj is None:
                continue
            new, fault, idpos = inj
            xml2 = xml[:b["span"][0]] + esc(new).replace("\r", "&#13;") + xml[b["span"][1]:]
            items.append({"block": b, "fault": fault, "idpos": idpos, "xml": xml2,
                          "case": Case("f%d" % len(items), [Step("parse_doc", 0, "xml_buffer", 1, 0, xml2)], timeout=60)})
    # warnings (strict invariants, expressions without effect, ...) on labels that are laid out over several lines: the
    # structural clauses speak about warnings too
    wcases = []
    for i in range(300 if quick else 6000):
        m = mg.model()
        xmlw = GM.render_xml(m, rng)
        out, last = [], 0
        for b in blocks_of(xmlw):
            if not b["kind"].startswith("label:"):
                continue
            txt = b["text"]
            if b["kind"] == "label:assignment":
                txt = txt + ", g0 == 1" if rng.random() < 0.5 else "g0 + 1, " + txt
            elif b["kind"] == "label:invariant":
                txt = txt.replace("<=", "<", 1)
            toks = lexer.tokenize(txt)
            # break the label over several lines between tokens
            for t in sorted(rng.sample(toks[1:], min(len(toks) - 1, rng.randint(1, 3))), key=lambda t: -t.pos) if len(toks) > 1 else []:
                txt = txt[:t.pos] + rng.choice(["\n", "\n   ", "\n\n", " // c\n"]) + txt[t.pos:]
            out.append(xmlw[last:b["span"][0]] + esc(txt))
            last = b["span"][1]
        xmlw2 = "".join(out) + xmlw[last:]
        wcases.append({"xml": xmlw2, "case": Case("w%d" % i, [Step("parse_doc", 0, "xml_buffer", 1, 0, xmlw2)], timeout=60)})
    # structural clauses on arbitrary hostile inputs as well
    hostile = [{"xml": x, "tag": t, "case": Case("h%d" % i, [Step("parse_doc", 0, "xml_buffer", 1, 0, x)], timeout=60)}
               for i, (t, x) in enumerate(workloads.hostile_models(rng, 1500 if quick else 20000))]
    res = run_cases([it["case"] for it in items] + [h["case"] for h in hostile] + [w["case"] for w in wcases])
    n_diag = 0
    per_fault = {}
    for it in items:
        r = res[it["case"].id]
        if r["status"] != "ok":
            rep.crash(r, it["case"])
            rep.observe(None)
            continue
        s = r["steps"][0]
        b = it["block"]
        what = "%s in <%s>" % (it["fault"], b["kind"])
        try:
            root = ET.fromstring(it["xml"].encode("utf-8"))
        except ET.ParseError:
            rep.inconclusive_case("generated XML not well-formed")
            continue
        elements = list(root.iter())
        diags = s["errors"] + s["warnings"]
        n_diag += len(diags)
        per_fault[it["fault"]] = per_fault.get(it["fault"], 0) + 1
        rep.observe((it["fault"], b["kind"], tuple(sorted(d["msg"] for d in s["errors"]))[:3]) if s["errors"] else None)
        resolved = check_structure(rep, root, elements, diags, it["case"], what)
        if s.get("exc"):
            continue            # the parse was abandoned (e.g. unsupported statement): only the structural clauses apply
        target = elements[b["ordinal"]] if b["ordinal"] < len(elements) else None
        err_els = resolved[:len(s["errors"])]
        if not s["errors"]:
            if it["fault"] in ("undeclared", "unbalanced", "drop-operand", "unterminated-comment") or b["kind"] != "declaration":
                rep.violation("C06:fault-not-reported:%s:%s" % (it["fault"], b["kind"]), "%s: no error reported at all" % what, it["case"])
            continue
        if target is not None and not any(e is target for e in err_els):
            rep.violation("C06:no-error-in-faulted-block:%s:%s" % (it["fault"], b["kind"]),
                          "%s: errors %s, none attributed to the faulted element" % (what, [(d["msg"], d["path"]) for d in s["errors"]][:3]), it["case"])
        if b["kind"].startswith("label:") and b["kind"][6:] in NON_DECLARING and target is not None:
            for d, e in zip(s["errors"], err_els):
                if e is not None and e is not target:
                    rep.violation("C06:error-attributed-elsewhere:%s:%s" % (it["fault"], b["kind"]),
                                  "%s: error %r attributed to %s" % (what, d["msg"], d["path"]), it["case"])
                    break
        if it["fault"] == "undeclared" and target is not None:
            line, col, ecol, name = it["idpos"]
            hits = [d for d, e in zip(s["errors"], err_els) if e is target and d["line"] == line and d["eline"] == line and d["col"] == col and d["ecol"] == ecol]
            if not hits:
                near = [(d["msg"], d["line"], d["col"], d["eline"], d["ecol"]) for d, e in zip(s["errors"], err_els) if e is target]
                rep.violation("C06:identifier-range-wrong:%s" % b["kind"], "undeclared identifier %r at line %d columns %d-%d of <%s>; "
                              "reported ranges %s" % (name, line, col, ecol, b["kind"], near[:3]), it["case"])
    n_warn = 0
    for wc in wcases:
        r = res[wc["case"].id]
        if r["status"] != "ok":
            rep.crash(r, wc["case"])
            continue
        sw = r["steps"][0]
        if not sw["warnings"] and not sw["errors"]:
            continue
        try:
            rootw = ET.fromstring(wc["xml"].encode("utf-8"))
        except ET.ParseError:
            continue
        n_warn += len(sw["warnings"])
        multi = sum(1 for d in sw["warnings"] if d["eline"] > d["line"])
        rep.observe(("warnings", tuple(sorted(d["msg"] for d in sw["warnings"]))[:3], multi > 0))
        check_structure(rep, rootw, list(rootw.iter()), sw["errors"] + sw["warnings"], wc["case"], "multi-line labels with warnings")
        # a warning attached to a label that was broken over lines ends after it starts
        for d in sw["warnings"]:
            if (d["eline"], d["ecol"]) < (d["line"], d["col"]):
                rep.violation("C06:warning-range-reversed", "warning %r from %d:%d to %d:%d" % (d["msg"], d["line"], d["col"], d["eline"], d["ecol"]), wc["case"])
    rep.extra["warnings_checked"] = n_warn
    for h in hostile:
        r = res[h["case"].id]
        if r["status"] != "ok":
            rep.crash(r, h["case"])
            continue
        s = r["steps"][0]
        diags = s["errors"] + s["warnings"]
        if not diags:
            continue
        try:
            root = ET.fromstring(h["xml"].encode("utf-8"))
        except ET.ParseError:
            continue        # not well-formed: no independent DOM to compare with
        n_diag += len(diags)
        rep.observe(("hostile", h["tag"], tuple(sorted(d["msg"] for d in diags))[:3]))
        check_structure(rep, root, list(root.iter()), diags, h["case"], "hostile input (%s)" % h["tag"],
                        dtd_invalid=h["tag"].startswith("xml:"))
    rep.sample({"fault": items[0]["fault"], "block": items[0]["block"]["kind"], "expected_identifier_range": items[0]["idpos"],
                "xml": items[0]["xml"][:900]})
    rep.rule = ("one fault (undeclared identifier, dropped operand, unbalanced bracket, stray token, type error, side effect "
                "in guard, unterminated comment) at a random token of a random text block (declarations, parameters, every "
                "label kind, system) of generated accepted models, with leading blank lines / comments / continuations / "
                "CRLF / entities before the site; every diagnostic checked against an ElementTree DOM of the same bytes; "
                "structural clauses also on hostile inputs; non-trivial = at least one error reported; distinct = (fault, "
                "block kind, message set)")
    rep.extra["diagnostics_checked"] = n_diag
    rep.extra["faults_by_kind"] = per_fault


def replay(data):
    import json
    c = Case.from_json(data["case"])
    r = run_cases([c])[c.id]
    print(json.dumps(r, indent=1)[:8000])
