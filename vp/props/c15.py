"""C15 - a parse result depends only on its input, not on earlier parses in the process.

Oracle: the same call made first in a fresh process (every unit is recorded alone, then inside random sequences)."""
import copy
import json
import random

from .. import faults, gen_expr as G, gen_model as GM, queries as Q, workloads, xmlgen
from ..runner import Case, Step, run_cases

ABSOLUTE = ("ps", "pe", "step", "steps", "wall_ms")


def strip(x):
    if isinstance(x, dict):
        return {k: strip(v) for k, v in x.items() if k not in ABSOLUTE and k != "excmsg"}
    if isinstance(x, list):
        return [strip(v) for v in x]
    return x


def units(rng, n):
    """Self-contained units: (tag, [steps]) ; every unit starts by (re)creating slot 0."""
    mg = GM.ModelGen(rng, 3, 5, 8)
    out = []
    prelude = xmlgen.simple_model(decl=G.PRELUDE)
    def chain_xta(old=False):
        """small processes over a fixed set of location names with full-form and short-form (chained) transitions,
        controllable and uncontrollable: the remembered source of a chain is file-static state of the grammar"""
        locs = ["idle", "busy", "off", "done"]
        edges = []
        for k in range(rng.randint(1, 5)):
            arrow = "-u->" if (rng.random() < 0.4 and not old) else "->"
            body = rng.choice(["{ }", "{ guard a > 0; }", "{ assign a := 1; }" if old else "{ assign a = 1; }"])
            if k > 0 and rng.random() < 0.45 or (k == 0 and rng.random() < 0.12):
                edges.append("  %s %s %s" % (arrow, rng.choice(locs), body))         # short form: source of the previous full form
            else:
                edges.append("  %s %s %s %s" % (rng.choice(locs), arrow, rng.choice(locs), body))
        return ("int a;\nprocess P%s {\nstate %s;\ninit %s;\ntrans\n%s;\n}\nsystem P;\n" % (
            "" if old else "()", ", ".join(locs), rng.choice(locs), ",\n".join(edges)))

    longid = lambda: rng.choice("abcxyz") + "".join(rng.choice("abcdefgh_0123456789") for _ in range(rng.choice([3990, 3999, 4000, 4001, 4500, 9000])))
    for i in range(n):
        r = rng.random()
        m = mg.model()
        if r < 0.05:
            out.append(("xta-chain", [Step("parse_doc", 0, rng.choice(["xta_buffer", "xta_file"]), 1, 1, chain_xta())]))
            continue
        if r < 0.07:
            out.append(("xta-chain-old", [Step("parse_doc", 0, "xta_buffer", 0, 1, chain_xta(True))]))
            continue
        if r < 0.10:
            # identifiers around and beyond the lexer's length limit as the first value-carrying token of a call
            lid = longid()
            what = rng.random()
            if what < 0.3:
                out.append(("long-identifier-old-xta", [Step("parse_doc", 0, "xta_buffer", 0, 1, "int %s;\nprocess P { state A; init A; }\nsystem P;" % lid)]))
            elif what < 0.6:
                out.append(("long-identifier-part", [Step("part", 0, rng.choice([0, 1]), rng.choice(["S_DECLARATION", "S_EXPRESSION", "S_PARAMETERS", "S_SELECT"]),
                                                          rng.choice(["doc", "expr", "pretty"]),
                                                          rng.choice(["int %s;", "%s + 1", "%s", "int %s", "%s : int[0,1]"]) % lid)]))
            elif what < 0.8:
                out.append(("long-identifier-query", [Step("parse_doc", 0, "xml_buffer", 1, 0, Q.MODEL), Step("query", 0, "w", "E<> %s > 0" % lid)]))
            else:
                out.append(("long-identifier-xml", [Step("parse_doc", 0, "xml_buffer", 1, 1, xmlgen.simple_model(decl="int %s;" % lid))]))
            continue
        r = (r - 0.10) / 0.90
        if rng.random() < 0.12:
            x = rng.random()
            if x < 0.3:
                # not well-formed XML of several kinds (each leaves its own trace in the XML library's error state)
                base = xmlgen.simple_model(decl="int a;")
                bad = rng.choice([base[:rng.randint(60, len(base) - 10)], base.replace("</declaration>", "&nosuch;</declaration>", 1),
                                  base.replace("</template>", "</templat>", 1), base.replace("<nta>", "<nta><nta", 1),
                                  base + "<trailing>", "<nta><declaration>int x;</declaration>", "<?xml version=\"1.0\"?>", "not xml at all",
                                  base.replace("int a;", "int a; <", 1), base.replace('id="id0"', 'id="id0', 1)])
                out.append(("xml-not-well-formed", [Step("parse_doc", 0, rng.choice(["xml_buffer", "xml_file", "xml_fd"]), 1, 1, bad)]))
            elif x < 0.6:
                # well-formed XML that is not a complete model: the reader runs out of elements
                bad = rng.choice(["<nta><declaration>int x;</declaration></nta>", "<nta></nta>", "<nta/>",
                                  "<nta><declaration>int x;</declaration><template><name>T</name><location id=\"id0\"/><init ref=\"id0\"/></template></nta>",
                                  "<nta><declaration>int x;</declaration><template><name>T</name></template></nta>",
                                  "<?xml version=\"1.0\" encoding=\"utf-8\"?><nta><declaration/></nta>", "<model/>",
                                  "<nta><declaration>int x;</declaration><system>system T;</system></nta>"])
                out.append(("xml-incomplete", [Step("parse_doc", 0, rng.choice(["xml_buffer", "xml_file", "xml_fd"]), 1, 1, bad)]))
            else:
                # characters the scanner does not know, alone and in runs (inside and outside the parser's recovery window)
                g = "".join(rng.choice("@@@`$\\~") for _ in range(rng.randint(1, 3)))
                text = rng.choice(["int y = 3 %s 4;", "int y = 3 %s;", "int y; %s", "%s int y;", "int y = 3 %s 4 %s 5;", "void f() { int z = 1 %s 2; }",
                                   "int y = (3 %s", "int y = 3 +%s+ 4; int w = ;"]).replace("%s", g)
                if rng.random() < 0.6:
                    out.append(("unknown-characters", [Step("part", 0, 1, rng.choice(["S_DECLARATION", "S_XTA", "S_EXPRESSION", "S_GUARD", "S_ASSIGN"]),
                                                            rng.choice(["doc", "expr", "pretty"]), text)]))
                else:
                    out.append(("unknown-characters", [Step("parse_doc", 0, "xml_buffer", 1, 1, xmlgen.simple_model(decl=text.replace("<", "&lt;")))]))
            continue
        if r < 0.18:
            out.append(("xml-valid", [Step("parse_doc", 0, rng.choice(["xml_buffer", "xml_file", "xml_fd"]), 1, 1, GM.render_xml(m, rng))]))
        elif r < 0.30:
            out.append(("xta-valid", [Step("parse_doc", 0, rng.choice(["xta_buffer", "xta_file"]), 1, 1, GM.render_xta(m, rng))]))
        elif r < 0.42:
            xml, d = workloads.mutate_text_block(GM.render_xml(m, rng), rng, 1)
            out.append(("xml-token-fault", [Step("parse_doc", 0, "xml_buffer", 1, 1, xml)]))
        elif r < 0.50:
            xml, d = faults.xml_faults(GM.render_xml(m, rng), rng, 1)
            out.append(("xml-structure-fault", [Step("parse_doc", 0, rng.choice(["xml_buffer", "xml_file"]), 1, 1, xml)]))
        elif r < 0.58:
            # parses that end in an exception thrown from inside the grammar / reader
            bad = rng.choice([
                xmlgen.simple_model(decl="void f() { int i; for (i = 0; i < 2; i++) { break; } }"),
                xmlgen.simple_model(decl="void f(int v) { switch (v) { case 1: v = 2; } }"),
                xmlgen.simple_model(decl="void f() { while (true) { continue; } }"),
                xmlgen.simple_model(edges=[("id0", "nowhere", [])]),
                xmlgen.simple_model()[:rng.randint(150, 300)],
                xmlgen.simple_model(decl="int a; /* unterminated " ),
                xmlgen.simple_model(decl="int a; /* c */ void f() { /* inside " + "x" * 50),
                xmlgen.simple_model(decl='string s = "unterminated;'),
                xmlgen.simple_model(decl="int a;", edges=[("id0", "id0", [("guard", "a > 0 /* open")])]),
            ])
            out.append(("exception-or-open-comment", [Step("parse_doc", 0, "xml_buffer", 1, 1, bad)]))
        elif r < 0.66:
            text = rng.choice(["", " ", "\n", "// only a comment", "/* c */", "i +", "(", "i + j * 2", "a[1] > a[0] ? s.f : t.n", "1 +\n\n  2"])
            out.append(("part-expression", [Step("parse_doc", 0, "xml_buffer", 1, 0, prelude),
                                            Step("part", 0, 1, rng.choice(["S_EXPRESSION", "S_EXPRESSION_LIST", "S_GUARD", "S_ASSIGN"]), rng.choice(["expr", "pretty"]), text)]))
        elif r < 0.74:
            qs = [q for _, q in Q.catalogue(rng, 3)]
            if rng.random() < 0.4:
                qs[0], _ = faults.token_faults(qs[0], rng, 1)
            out.append(("queries", [Step("parse_doc", 0, "xml_buffer", 1, 0, Q.MODEL), Step("query", 0, "w", *qs)]))
        elif r < 0.80:
            out.append(("old-syntax", [Step("parse_doc", 0, "xta_buffer", 0, 1,
                                            "int a; const N 3; chan c;\nprocess P { state A, B; init A; trans A -> B { guard a < N; sync c!; assign a := a + 1; }; }\nsystem P;")]))
        elif r < 0.88:
            # the first transition of the template is a chained one (no source): depends on the remembered source
            xta = "int a;\nprocess P() {\nstate A, B;\ninit A;\ntrans\n  -> B { guard a > 0; },\n A -> B { };\n}\nsystem P;\n"
            out.append(("xta-chained-first", [Step("parse_doc", 0, "xta_buffer", 1, 1, xta)]))
        elif r < 0.94:
            out.append(("pretty", [Step("parse_builder", 0, "xml_buffer", 1, "pretty", 0, GM.render_xml(m, rng))]))
        elif r < 0.955:
            # builders whose handle_error throws (PrettyPrinter): the grammar is left by an exception
            bad = rng.choice(["int a; /* open comment", "void f() { /* open", "int a = ;", "int q[", "chan c; c ! ;", "int a; // fine\n/*"])
            if rng.random() < 0.5:
                out.append(("pretty-error", [Step("part", 0, 1, rng.choice(["S_DECLARATION", "S_XTA", "S_EXPRESSION", "S_GUARD"]), "pretty", bad)]))
            else:
                out.append(("pretty-error", [Step("parse_builder", 0, "xml_buffer", 1, "pretty", 0, xmlgen.simple_model(decl=bad))]))
        elif r < 0.975:
            # parses abandoned in the middle of a declarator (file-static counters of the grammar)
            bad = rng.choice(["bool grid[int[0,1]][2;", "typedef int[0,2] id_t; int q[id_t][", "int z[int[0,1]][int[0,2]", "int y[2][id_t][;",
                              "typedef struct { int f[int[0,1]][ } s_t;", "int w[int[0,1]][3] = {"])
            if rng.random() < 0.5:
                out.append(("abandoned-declarator", [Step("part", 0, 1, "S_DECLARATION", rng.choice(["doc", "expr", "pretty"]), bad)]))
            else:
                out.append(("abandoned-declarator", [Step("parse_doc", 0, "xml_buffer", 1, 1, xmlgen.simple_model(decl=bad))]))
        elif r < 0.99:
            out.append(("array-declarators", [Step("parse_doc", 0, rng.choice(["xml_buffer", "xta_buffer"]), 1, 1, (xmlgen.simple_model(
                decl="typedef int[0,2] id_t; int cnt, slots[3]; bool busy[id_t], idle; int m[2][id_t], n2, k[id_t][2]; chan cs[id_t], c1;")
                if rng.random() < 0.5 else "typedef int[0,2] id_t; int cnt, slots[3]; bool busy[id_t], idle; int m[2][id_t], n2;\nprocess P() { state A; init A; }\nsystem P;"))]))
        else:
            out.append(("decl-part", [Step("part", 0, 1, "S_DECLARATION", "doc", rng.choice(["int a; int b = a;", "int a; void f() {", "typedef struct { int x; } s_t; s_t v;", ""]))]))
    return out


def run(rep, tier, seed):
    rng = random.Random(seed * 1000003 + 15)
    quick = tier == "quick"
    mg_held = GM.ModelGen(rng, 2, 3, 4)
    pool = units(rng, 800 if quick else 4000)
    solo_cases = [Case("u%d" % i, steps, timeout=60) for i, (_, steps) in enumerate(pool)]
    solo = run_cases(solo_cases)
    ok_units = []
    for i, c in enumerate(solo_cases):
        r = solo[c.id]
        if r["status"] != "ok":
            if r["status"] != "timeout":
                rep.crash(r, c)
            continue
        ok_units.append(i)
    n_seq = 3000 if quick else 30000
    lexical_units = [i for i in ok_units if pool[i][0] in ("unknown-characters", "exception-or-open-comment", "pretty-error", "abandoned-declarator")]
    # documents that stay alive while other documents are built: a query call on an older document is a call like any
    # other and must give what it gives when it directly follows the building of its document in a fresh process
    held = []
    for k in range(12 if quick else 60):
        m = mg_held.model()
        big = rng.random() < 0.5
        xml = GM.render_xml(m, rng) if not big else GM.render_xml(GM.ModelGen(rng, 6, 10, 20).model(), rng)
        qs = ["E<> g0 >= 0", "A[] not deadlock", "E<> g0 > 100 || N == 0", "A[] g0 + ", "E<> nosuch > 1"][:rng.randint(2, 5)]
        if rng.random() < 0.5:
            qs = list(reversed(qs))      # a faulty query first
        hc = Case("h%d" % k, [Step("parse_doc", 2, "xml_buffer", 1, 0, xml), Step("query", 2, "", *qs)], timeout=60)
        held.append((xml, qs, hc))
    hres = run_cases([hc for _, _, hc in held])
    held = [(x, q, hc, strip(hres[hc.id]["steps"][1])) for x, q, hc in held if hres[hc.id]["status"] == "ok"]
    seqs = []
    for k in range(n_seq):
        length = rng.randint(2, 8)
        idx = [rng.choice(ok_units) for _ in range(length)]
        steps = []
        bounds = []
        seeded = None
        if rng.random() < 0.25:
            seeded = rng.choice([2 ** 31 - rng.randint(1, 4000), 2 ** 32 - rng.randint(1, 4000), 2 ** 31 - 1, 2 ** 31, 2 ** 32 - 2,
                                 2 ** 31 - rng.randint(1, 60), 2 ** 32 - rng.randint(1, 60)])
            steps.append(Step("tracker", seeded))
        hold = rng.choice(held) if held and seeded is None and rng.random() < 0.4 else None
        if hold:
            steps.append(Step("parse_doc", 2, "xml_buffer", 1, 0, hold[0]))
        hq = None
        hpos = rng.randint(0, length - 1) if hold else None     # the older document is queried after this unit
        if hold and lexical_units and rng.random() < 0.4:
            idx[hpos] = rng.choice(lexical_units)               # ... often one that ended inside the scanner's error handling
        for pos, i in enumerate(idx):
            steps.append(Step("drop", 0))
            start = len(steps)
            steps += pool[i][1]
            bounds.append((i, start, len(steps)))
            if hold and pos == hpos:
                hq = len(steps)
                steps.append(Step("query", 2, "", *hold[1]))
        seqs.append((idx, bounds, seeded, Case("q%d" % k, steps, timeout=120), hold, hq))
    sres = run_cases([c for _, _, _, c, _, _ in seqs])
    compared = 0
    for idx, bounds, seeded, c, hold, hq in seqs:
        r = sres[c.id]
        if r["status"] != "ok":
            if r["status"] == "timeout":
                rep.inconclusive_case("watchdog")
            else:
                # every unit is crash free alone: a crash here is history dependent
                key = rep.crash(r, c)
            rep.observe(None)
            continue
        rep.observe((tuple(pool[i][0] for i in idx), seeded is not None, hold is not None))
        if hold is not None:
            got = strip(r["steps"][hq])
            compared += 1
            if got != hold[3]:
                from .. import deepdiff
                d = deepdiff.first_diff(hold[3], got)
                rep.violation("C15:query-on-older-document-depends-on-history:%s" % (d[0].replace("/[]", "") if d else "?"),
                              "queries on a document built %d calls earlier: %s is %r when the queries directly follow the building of the "
                              "document in a fresh process but %r here" % (len(idx), d[0] if d else "?", d[1] if d else None, d[2] if d else None), c)
        for pos, (i, a, b) in enumerate(bounds):
            want = strip(solo[solo_cases[i].id]["steps"])
            got = strip(r["steps"][a:b])
            compared += 1
            if got != want:
                from .. import deepdiff
                d = deepdiff.first_diff(want, got)
                prev = pool[idx[pos - 1]][0] if pos > 0 else ("tracker-seeded" if seeded is not None else "none")
                where = d[0] if d else "?"
                where = where.replace("/[]", "")
                if seeded is not None:
                    # sequences without seeding are compared too; a difference that needs the seeded counter is the
                    # 32-bit position counter reaching its limits
                    key = "C15:position-counter-overflow:%s" % ("2^32" if seeded >= 2 ** 32 - 5000 else "2^31")
                else:
                    key = "C15:result-depends-on-history:%s:%s" % (pool[i][0], where)
                rep.violation(key,
                              "unit %s at position %d (after %s%s): %s is %r when run first in a fresh process but %r here" % (
                                  pool[i][0], pos, prev, ", position counter seeded to %d" % seeded if seeded is not None else "", where,
                                  d[1] if d else None, d[2] if d else None), c)
                break
    rep.sample({"sequence": [pool[i][0] for i in seqs[0][0]], "seeded_counter": seqs[0][2]})
    rep.extra["sequences_with_a_held_document"] = sum(1 for x in seqs if x[4] is not None)
    rep.rule = ("units (valid / faulty XML and XTA parses through buffer, file, fd and FILE*, parses ending in "
                "NotSupportedException / XMLDocError / XMLReaderError, unterminated comments and strings, blank and "
                "broken block parses, query parses, old-syntax documents, chained first transitions, pretty printing) "
                "recorded alone in a fresh process, then executed inside random sequences of 2..8 units in one process, a "
                "quarter of them with the global position counter seeded near 2^31 or 2^32; results compared field by "
                "field except absolute positions; distinct = (sequence of unit classes, seeded?)")
    rep.extra["unit_results_compared"] = compared
    rep.extra["units_recorded"] = len(ok_units)


def replay(data):
    c = Case.from_json(data["case"])
    r = run_cases([c])[c.id]
    print(json.dumps(r, indent=1)[:12000])
