"""C18 - interval operations of range_t agree with their set semantics (harness/range_check.cpp)."""
import hashlib
import json
import os
import re
import subprocess
from concurrent.futures import ThreadPoolExecutor

from .. import build

SRC = os.path.join(build.HARNESS, "range_check.cpp")


def _exe(assertions):
    hdr = os.path.join(build.REPO, "include", "utap", "range.h")
    h = hashlib.sha256(open(hdr, "rb").read() + open(SRC, "rb").read()).hexdigest()[:16]
    d = os.path.join(build.BUILD_ROOT, "range")
    os.makedirs(d, exist_ok=True)
    exe = os.path.join(d, "range_check.%s.%s" % (h, "assert" if assertions else "ndebug"))
    if not os.path.exists(exe):
        for f in os.listdir(d):
            if f.endswith("assert" if assertions else "ndebug"):
                os.unlink(os.path.join(d, f))
        flags = ["-std=c++17", "-O1", "-g1", "-fsanitize=undefined", "-fno-omit-frame-pointer", "-w",
                 "-I" + os.path.join(build.REPO, "include")]
        if not assertions:
            flags.append("-DNDEBUG")
        build._run(["g++"] + flags + [SRC, "-o", exe + ".tmp"])
        os.rename(exe + ".tmp", exe)
    return exe


def _enclosing_function(line_no):
    """Name the range.h member a UBSan report points into (keys must not depend on line numbers)."""
    lines = open(os.path.join(build.REPO, "include", "utap", "range.h")).read().split("\n")
    for i in range(min(line_no, len(lines)) - 1, -1, -1):
        m = re.search(r"constexpr\s+[\w:<>&\s]*?\b(operator\s*[^\s(]+|\w+)\s*\(([^)]*)\)", lines[i])
        if m:
            return re.sub(r"\s+", "", m.group(1)) + "(" + ("range" if "range_t" in m.group(2) else "T" if m.group(2).strip() else "") + ")"
    return "line%d" % line_no


def _run(exe, mode, shard, nshards, seed, count):
    env = dict(os.environ, UBSAN_OPTIONS="halt_on_error=0:print_stacktrace=0", LC_ALL="C")
    p = subprocess.run([exe, mode, str(shard), str(nshards), str(seed), str(count)], stdout=subprocess.PIPE,
                       stderr=subprocess.PIPE, env=env, text=True)
    return p


def run(rep, tier, seed):
    rep.level = "exploration"
    jobs = []   # (assertions, mode, nshards, count)
    if tier == "quick":
        jobs = [(False, "int8-brute", 1, 0), (False, "int8-quick", 16, 0), (False, "int32", 8, 120000),
                (False, "double", 8, 120000), (True, "int8-quick", 16, 0), (True, "int32", 2, 40000),
                (True, "double", 2, 40000)]
    else:
        jobs = [(False, "int8-brute", 1, 0), (False, "int8-exh", 64, 0), (False, "int32", 16, 3000000),
                (False, "double", 16, 3000000), (True, "int8-quick", 16, 0), (True, "int32", 16, 500000),
                (True, "double", 16, 500000)]
    tasks = []
    for assertions, mode, ns, count in jobs:
        exe = _exe(assertions)
        for sh in range(ns):
            tasks.append((assertions, mode, sh, ns, count, exe))
    checked = {}
    skipped = {}
    modes_done = {}

    def work(t):
        assertions, mode, sh, ns, count, exe = t
        return t, _run(exe, mode, sh, ns, seed, count)

    with ThreadPoolExecutor(max_workers=16) as ex:
        results = list(ex.map(work, tasks))
    for t, p in results:
        assertions, mode, sh, ns, count, exe = t
        tag = mode + ("/assert" if assertions else "")
        case = {"cmd": [os.path.basename(exe), mode, sh, ns, seed, count], "assertions": assertions}
        # UBSan reports (deduplicated by source location by the runtime)
        for m in re.finditer(r"range\.h:(\d+):\d+: runtime error: ([^\n]*)", p.stderr):
            fn = _enclosing_function(int(m.group(1)))
            msg = re.sub(r"-?\d+", "N", m.group(2))
            rep.violation("C18:ub:%s:%s" % (fn, msg.replace(" ", "_")[:60]),
                          "undefined behaviour inside range_t::%s within the stated preconditions: %s" % (fn, m.group(2)),
                          case)
        if p.returncode != 0:
            m = re.search(r"Assertion [`'](.*?)' failed", p.stderr)
            if m:
                fm = re.search(r"range\.h:(\d+)", p.stderr)
                fn = _enclosing_function(int(fm.group(1))) if fm else "?"
                rep.violation("C18:abort:%s:%s" % (fn, m.group(1).replace(" ", "_")[:40]),
                              "assertion inside range.h fired within the stated preconditions: " + p.stderr[-400:], case)
            else:
                rep.violation("C18:abort:exit%d" % p.returncode, "range_check died: " + p.stderr[-600:], case)
            continue
        try:
            r = json.loads(p.stdout)
        except ValueError:
            rep.inconclusive_case("unparsable range_check output")
            continue
        n = sum(r["checked"].values())
        for k, v in r["checked"].items():
            checked[k] = checked.get(k, 0) + v
            # distinct non-trivial: every (operation, shard, mode) actually evaluated at least once
            rep.observe("%s|%s|%d" % (tag, k, sh), 0)
        rep.evaluations += n
        for k, v in r["skipped"].items():
            skipped[k] = skipped.get(k, 0) + v
        modes_done[tag] = modes_done.get(tag, 0) + n
        for v in r["violations"]:
            op = v["op"]
            rep.violation("C18:wrong-result:%s" % op.replace("brute-", ""),
                          "range_t %s disagrees with set semantics: %s (%d such cases in shard)" % (
                              op, v["detail"], r["violation_counts"].get(op, 0)), dict(case, detail=v["detail"]))
        if r["violations"]:
            rep.sample({"mode": tag, "violating": r["violations"][:2]})
    rep.rule = ("every operation of range_t<T> evaluated by the real header and compared with a closed form in wider "
                "arithmetic; operands non-empty; cases whose result (or, for gt(max)/lt(min), whose operation) is not "
                "representable are skipped and counted; distinct = (mode, operation, shard) triples evaluated")
    rep.extra["operations_checked"] = checked
    rep.extra["skipped_by_precondition"] = skipped
    rep.extra["per_mode_evaluations"] = modes_done
    rep.exhaustive = tier == "thorough"
    rep.extra["exhaustive_note"] = ("int8_t: all 32896 intervals x 256 scalars and all 32896^2 interval pairs"
                                    if tier == "thorough" else "int8_t: boundary + stride-5 sub-lattice (seeded offset)")
    rep.sample({"mode": "int8", "example": "r=[-3,5].lt(2) expected [-3,1]; r=[a,b]*[c,d] expected hull of corner products"})
    rep.assumptions += ["UBSan (gcc 12) detects signed overflow / invalid shifts / null in the header's code",
                        "closed forms validated against explicit membership bitsets on [-9,9] (mode int8-brute)"]


def replay(data):
    c = data["case"]
    exe = _exe(c.get("assertions", False))
    cmd = [exe] + [str(x) for x in c["cmd"][1:]]
    p = subprocess.run(cmd, stdout=subprocess.PIPE, stderr=subprocess.PIPE, text=True,
                       env=dict(os.environ, UBSAN_OPTIONS="halt_on_error=0"))
    print(p.stdout[-3000:])
    print(p.stderr[-3000:])
