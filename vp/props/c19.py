"""C19 - expression cloning, substitution and equality obey their algebraic laws (harness/laws.cpp)."""
import random

from .. import gen_expr as G, gen_model as GM, queries as Q, workloads, xmlgen
from ..runner import Case, Step, run_cases


def run(rep, tier, seed):
    rng = random.Random(seed * 1000003 + 19)
    quick = tier == "quick"
    cases = []
    prelude = xmlgen.simple_model(decl=G.PRELUDE)
    tg = G.TypedGen(rng)
    ug = G.Gen(rng)
    n_batches = 200 if quick else 1500
    for i in range(n_batches):
        extras = []
        for _ in range(25):
            t = tg.any(rng.choice([2, 3, 4])) if rng.random() < 0.7 else ug.tree(rng.choice([2, 3, 4]))
            extras.append("E:" + G.render_min(t, rng))
        cases.append(("exprs", Case("e%d" % i, [Step("parse_doc", 0, "xml_buffer", 1, 0, prelude),
                                                Step("laws", 0, rng.randrange(1 << 30), 400, *extras)], timeout=120)))
    for i in range(100 if quick else 600):
        extras = ["Q:" + q for _, q in Q.catalogue(rng, 40)]
        cases.append(("queries", Case("q%d" % i, [Step("parse_doc", 0, "xml_buffer", 1, 0, Q.MODEL),
                                                  Step("laws", 0, rng.randrange(1 << 30), 500, *extras)], timeout=120)))
    mg = GM.ModelGen(rng, 4, 8, 20)
    for i in range(400 if quick else 3000):
        xml = GM.render_xml(mg.model(), rng)
        cases.append(("model", Case("m%d" % i, [Step("parse_doc", 0, "xml_buffer", 1, 0, xml),
                                                Step("laws", 0, rng.randrange(1 << 30), 300)], timeout=120)))
    for i, (name, xml) in enumerate(workloads.test_models()):
        cases.append(("testmodel", Case("t%d" % i, [Step("parse_doc", 0, "xml_buffer", 1, 0, xml),
                                                    Step("laws", 0, rng.randrange(1 << 30), 600)], timeout=120)))
    res = run_cases([c for _, c in cases])
    counts = {}
    kinds = set()
    for tag, c in cases:
        r = res[c.id]
        if r["status"] != "ok":
            rep.crash(r, c)
            rep.observe(None)
            continue
        s = r["steps"][1]
        n = sum(s["counts"].values())
        for k, v in s["counts"].items():
            counts[k] = counts.get(k, 0) + v
        kinds.update(s["kinds"])
        rep.observe((tag, tuple(sorted(s["kinds"])), s["work"]) if s["work"] >= 5 else None, max(1, n))
        for v in s["violations"]:
            law, _, detail = v.partition("|")
            rep.violation("C19:%s" % law, "law %s violated: %s" % (law, detail[:600]), c)
    rep.sample({"kind": cases[0][0], "expressions": [a.decode() for a in cases[0][1].steps[1].args[3:8]]})
    rep.rule = ("clone_deeper / clone_deeper(from,to) / subst / equal / get_size laws checked on every sub-expression of "
                "generated typed and raw expressions, the query catalogue (n-ary SIMULATE/LIST/PROBA nodes) and all "
                "labels/initialisers/function bodies of generated and test models; evaluations = law instances; "
                "non-trivial = at least 5 expressions in the batch; distinct = distinct (workload, kind set, size)")
    rep.extra["law_instances"] = counts
    rep.extra["expression_kinds_covered"] = sorted(kinds)
    rep.assumptions.append("hook H2 (expression_t::verif_sub_size) exposes the stored child count")


def replay(data):
    import json
    c = Case.from_json(data["case"])
    r = run_cases([c])[c.id]
    print(json.dumps(r, indent=1)[:10000])
