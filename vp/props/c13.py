"""C13 - sizes, bounds, initialisers and value arguments must be compile-time computable.

Oracle: a reference dependence analysis by construction - every dependency expression is labelled mutable (reaches a
non-constant variable directly, through a function body or through a call chain) or pure."""
import random

from .. import accept, xmlgen

DECL = """
const int N = 2;
const int K1 = N + 1;
const int K2 = K1 * 2;
const int CA[2] = { 1, 2 };
typedef struct { int f; int k; } S;
const S CS = { 1, 2 };
int g = 1;
int a[3];
S s;
bool b;
int rd() { return g; }
int rd2() { return rd(); }
int rd3() { return rd2() + 1; }
int rd4() { int t; t = rd3(); return t; }
int rdarr() { return a[1]; }
int rdfield() { return s.k; }
int rdif() { if (N > 1) { return g; } return 1; }
int rdloop() { int i; int t = 0; for (i = 0; i < 2; i++) { t += a[i]; } return t; }
int rdparam(int p) { return p + 1; }
int rdlocalinit() { int t = g; return t; }
int rdlocalarr() { int r[2] = { g, 1 }; return r[0]; }
int rdnestedarr() { { int r[2] = { 1, a[0] }; return r[1]; } }
int rdstructinit() { S l = { g, 2 }; return l.k; }
int rdwhile() { int t = 0; while (t < g) { t++; } return 1; }
int rddo() { int t = 0; do { t++; } while (t < g); return 1; }
int rditer() { int t = 0; for (q : int[0,1]) { t += a[q]; } return t; }
int rdret() { return N > 1 ? g : 2; }
int rdarg() { return rdparam(g); }
int rdindex() { return CA[g]; }
int rdcond() { if (g > 0) { return 1; } return 2; }
int rdassert() { assert(g >= 0); return 1; }
int rdlhsindex() { int l[3] = { 10, 20, 30 }; l[g] = 0; return l[0] + l[1] + l[2]; }
typedef struct { int v[3]; } RV;
int rdlhsfield() { RV r; r.v[g] = 7; return r.v[0]; }
int rdlhsnested() { int l[3]; int m[3]; l[m[g]] = 1; return l[0]; }
void fill(int &o) { o = g; }
int viavoid() { int l; fill(l); return l; }
void fill2(int &o) { fill(o); }
int viavoid2() { int l; fill2(l); return l + 1; }
void peek() { int t; t = g; }
int viapeek() { peek(); return 1; }
void fillconst(int &o) { o = N; }
int viavoidpure() { int l; fillconst(l); return l; }
void nothing() { int t; t = N; }
int viapurevoid() { nothing(); return 1; }
int pure() { return N + 1; }
int pure2() { return pure() * K1; }
int purearr() { return CA[1] + CS.f; }
int pureloop() { int i; int t = 0; for (i = 0; i < N; i++) { t += i; } return t; }
"""
MUTABLE = ["g", "g + 1", "N + g", "a[0]", "a[N]", "s.f", "rd()", "rd2()", "rd3()", "rd4()", "rdarr()", "rdfield()", "rdif()",
           "rdloop()", "N + rd()", "(b ? 1 : g)", "(N > 1 ? g : 2)", "rdparam(g)", "rdparam(rd())", "pure() + rd2()", "abs(g)",
           "(g <? 3)", "CA[g]", "-g", "rdlocalinit()", "rdlocalarr()", "rdnestedarr()", "rdstructinit()", "rdwhile()", "rddo()",
           "rditer()", "rdret()", "rdarg()", "rdindex()", "rdcond()", "rdassert()", "viavoid()", "viavoid2()", "viapeek()", "rdlhsindex()", "rdlhsfield()", "rdlhsnested()", "2 * rdlhsindex()",
           "rdparam(viavoid())"]
PURE = ["viavoidpure()", "viapurevoid()", "N", "N + 1", "K1", "K2", "K2 - K1", "pure()", "pure2()", "purearr()", "pureloop()", "rdparam(N)", "rdparam(pure())", "CA[0]",
        "CA[N - 1]", "CS.f", "(N > 1 ? 2 : 3)", "(1 << N)", "abs(N)", "(K1 <? K2)", "3", "K1 * K2 % 5 + 1",
        "(sum (q : int[0,N]) q)", "(sum (q : int[0,1]) CA[q])"]

CONTEXTS = {
    "array-size": lambda d: xmlgen.simple_model(decl=DECL + "int arr[%s + 1];" % d),
    "array-size-2d": lambda d: xmlgen.simple_model(decl=DECL + "int arr[2][%s + 1];" % d),
    "range-upper-bound": lambda d: xmlgen.simple_model(decl=DECL + "int[0, %s + 1] rb;" % d),
    "range-lower-bound": lambda d: xmlgen.simple_model(decl=DECL + "int[-(%s) - 1, 100] rl;" % d),
    "scalar-set-size": lambda d: xmlgen.simple_model(decl=DECL + "typedef scalar[%s + 1] sc_t; sc_t sv;" % d),
    "typedef-range-used": lambda d: xmlgen.simple_model(decl=DECL + "typedef int[0, %s + 1] rt_t; rt_t rv;" % d),
    "struct-field-array-size": lambda d: xmlgen.simple_model(decl=DECL + "typedef struct { int f[%s + 1]; } st_t; st_t stv;" % d),
    "global-initialiser": lambda d: xmlgen.simple_model(decl=DECL + "int v = %s;" % d),
    "global-const-initialiser": lambda d: xmlgen.simple_model(decl=DECL + "const int cv = %s;" % d),
    "global-array-initialiser": lambda d: xmlgen.simple_model(decl=DECL + "int va[2] = { 1, %s };" % d),
    "template-initialiser": lambda d: xmlgen.simple_model(decl=DECL, tdecl="int lv = %s;" % d),
    "template-array-size": lambda d: xmlgen.simple_model(decl=DECL, tdecl="int la[%s + 1];" % d),
    "template-range-bound": lambda d: xmlgen.simple_model(decl=DECL, tdecl="int[0, %s + 1] lr;" % d),
    "value-parameter-argument": lambda d: xmlgen.simple_model(decl=DECL, params="const int p", system="P1 = P(%s);\nsystem P1;" % d),
    "const-ref-parameter-argument": lambda d: xmlgen.simple_model(decl=DECL, params="const int &p", system="P1 = P(%s);\nsystem P1;" % d)
    if d in ("N", "K1", "K2", "g", "a[0]", "s.f", "CA[0]", "CS.f", "a[N]", "CA[N - 1]") else None,
    "bounded-value-parameter-argument": lambda d: xmlgen.simple_model(decl=DECL, params="const int[0,100] p", system="P1 = P(%s);\nsystem P1;" % d),
    "partial-instantiation-argument": lambda d: xmlgen.simple_model(decl=DECL, params="const int p, const int q",
                                                                    system="Q(const int z) = P(z, %s);\nQ1 = Q(1);\nsystem Q1;" % d),
}


def free_param_cases():
    """(name, model, must_reject)"""
    out = []
    tdecls = {"array-size": "int la[n + 1];", "array-size-via-local-const": "const int m = n + 1; int la[m];",
              "array-size-via-typedef": "typedef int[0, n] t_t; int la[n + 2];",
              "array-size-via-2-consts": "const int m1 = n; const int m2 = m1 + 1; int la[m2];",
              "array-size-via-3-consts": "const int m1 = n; const int m2 = m1 + 1; const int m3 = m2 * 2; int la[m3];",
              "array-size-via-4-consts": "const int m1 = n + 1; const int m2 = m1; const int m3 = m2; const int m4 = m3 + m1; int la[m4];",
              "array-size-via-const-and-function": "const int m1 = n; const int m2 = rdparam(m1); int la[m2];",
              "array-size-2d-second": "const int m1 = n + 1; const int m2 = m1; int la[2][m2];",
              "struct-field-array-size": "const int m1 = n + 1; const int m2 = m1; typedef struct { int f[m2]; } lt_t; lt_t lv;",
              "array-index-range-lower-bound": "int la[int[n,5]];",
              "array-index-range-upper-bound": "int la[int[0,n]];",
              "array-index-range-lower-bound-via-const": "const int lo = n; int la[int[lo,7]];",
              "array-of-array-index-range": "int la[2][int[n,4]];",
              "function-local-array-size": "int lf() { int la[n + 1]; la[0] = 1; return la[0]; }",
              "function-local-array-size-via-const": "const int m1 = n + 1; int lf() { int la[m1]; return 1; }",
              "function-nested-block-array-size": "void lf() { { { bool lb[n + 2]; lb[0] = true; } } }",
              "function-parameter-array-size": "int lf(int pa[n + 1]) { return pa[0]; }",
              "function-local-typedef-array-size": "void lf() { typedef int arr_t[n + 1]; arr_t la; la[0] = 1; }"}
    for nm, td in tdecls.items():
        out.append(("free-parameter:" + nm, xmlgen.simple_model(decl=DECL, params="const int[0,3] n", tdecl=td, system="system P;"), True))
        out.append(("bound-parameter:" + nm, xmlgen.simple_model(decl=DECL, params="const int[0,3] n", tdecl=td, system="P1 = P(2);\nsystem P1;"), False))
        # forwarded through a partial instantiation: Q's own parameter stays free
        out.append(("free-parameter-forwarded:" + nm, xmlgen.simple_model(decl=DECL, params="const int[0,3] n", tdecl=td,
                                                                           system="Q(const int[0,3] z) = P(z);\nsystem Q;"), True))
        out.append(("bound-parameter-forwarded:" + nm, xmlgen.simple_model(decl=DECL, params="const int[0,3] n", tdecl=td,
                                                                            system="Q(const int[0,3] z) = P(z);\nQ1 = Q(1);\nsystem Q1;"), False))
        # ... and through chains of partial instantiations that keep further parameters of their own
        for depth in (2, 3):
            for keep_extra in (False, True):
                lines = []
                prev, prevpars = "P", 1
                for lv in range(depth):
                    nm_i = "Q%d" % lv
                    if keep_extra and lv == 0:
                        lines.append("%s(const int[0,3] z%d, const int e%d) = %s(z%d);" % (nm_i, lv, lv, prev, lv))
                        prevpars = 2
                    elif prevpars == 2:
                        lines.append("%s(const int[0,3] z%d) = %s(z%d, 1);" % (nm_i, lv, prev, lv))
                        prevpars = 1
                    else:
                        lines.append("%s(const int[0,3] z%d) = %s(z%d);" % (nm_i, lv, prev, lv))
                    prev = nm_i
                tag = "chain%d%s:" % (depth, "+extra" if keep_extra else "")
                if prevpars == 2:
                    continue
                out.append(("free-parameter-forwarded-" + tag + nm, xmlgen.simple_model(decl=DECL, params="const int[0,3] n", tdecl=td,
                                                                                       system="\n".join(lines) + "\nsystem %s;" % prev), True))
                out.append(("bound-parameter-forwarded-" + tag + nm, xmlgen.simple_model(decl=DECL, params="const int[0,3] n", tdecl=td,
                                                                                        system="\n".join(lines) + "\nB1 = %s(2);\nsystem B1;" % prev), False))
    # named types: the same typedef name declared in several scopes, the computable one first
    for bad, must in (("g", True), ("rd()", True), ("a[1]", True), ("N", False), ("pure()", False)):
        two_templates = (xmlgen.HEADER + "<nta><declaration>" + xmlgen.esc(DECL) + "</declaration>"
                         '<template><name>A</name><declaration>typedef int[0,3] idx_t; idx_t va;</declaration><location id="a0"/><init ref="a0"/></template>'
                         '<template><name>B</name><declaration>' + xmlgen.esc("typedef int[0,%s + 1] idx_t; idx_t vb;" % bad) +
                         '</declaration><location id="b0"/><init ref="b0"/></template><system>system A, B;</system></nta>')
        out.append(("same-typedef-name-in-two-templates:range-bound", two_templates, must))
        out.append(("local-typedef-shadows-global:range-bound", xmlgen.simple_model(
            decl=DECL + "typedef int[0,3] idx_t; idx_t gv;", tdecl="typedef int[0,%s + 1] idx_t; idx_t lv;" % bad), must))
        out.append(("local-typedef-shadows-global:array-size", xmlgen.simple_model(
            decl=DECL + "typedef int arr_t[2]; arr_t gv;", tdecl="typedef int arr_t[%s + 1]; arr_t lv;" % bad), must))
        out.append(("function-typedef-shadows-global:scalar-size", xmlgen.simple_model(
            decl=DECL + "typedef int[0,3] idx_t; idx_t gv; void tf() { typedef int[0,%s + 1] idx_t; idx_t lv; lv = 0; }" % bad), must))
    # a free parameter that is NOT used in an array size is fine
    out.append(("free-parameter:guard-only", xmlgen.simple_model(decl=DECL, params="const int[0,3] n", edges=[("id0", "id0", [("guard", "g < n")])], system="system P;"), False))
    out.append(("free-parameter:range-bound", xmlgen.simple_model(decl=DECL, params="const int[0,3] n", tdecl="int[0, n] lr;", system="system P;"), False))
    # reference (non-constant) parameters can never size an array
    out.append(("ref-parameter:array-size", xmlgen.simple_model(decl=DECL, params="int &r", tdecl="int la[r + 1];", system="P1 = P(g);\nsystem P1;"), True))
    out.append(("template-local-mutable:array-size", xmlgen.simple_model(decl=DECL, tdecl="int l = 2; int la[l];"), True))
    out.append(("template-local-const:array-size", xmlgen.simple_model(decl=DECL, tdecl="const int l = 2; int la[l];"), False))
    return out


def run(rep, tier, seed):
    rep.level = "fault_enumeration"
    rng = random.Random(seed * 1000003 + 13)
    items = []
    # the dependency nested inside a larger expression of the context (thorough: every wrapper; quick: one per context)
    WRAPS = ["%s", "%s + 1", "(%s) * 2", "pure() + %s", "(N > 1 ? %s : 1)", "rdparam(%s)", "-(%s)", "(%s <? 9)", "(K1 > 2 ? 1 : %s)",
             "CA[0] + (%s)", "(sum (wq : int[0,1]) (%s))"]
    for cn, build in CONTEXTS.items():
        wraps = WRAPS if tier != "quick" else ["%s", rng.choice(WRAPS[1:])]
        for wr in wraps:
            for d in MUTABLE:
                m = build(wr % d)
                if m is not None or wr == "%s":
                    if m is not None:
                        items.append((cn, (wr % d) if wr != "%s" else d, True, m))
            for d in PURE:
                m = build(wr % d)
                if m is not None:
                    items.append((cn, (wr % d) if wr != "%s" else d, False, m))
    for nm, m, rej in free_param_cases():
        items.append((nm, "-", rej, m))
    vs = accept.verdicts([m for _, _, _, m in items], tag="c13")
    for (cn, d, must_reject, _), v in zip(items, vs):
        if v["crash"] is not None:
            rep.crash(v["crash"], v["case"])
            rep.observe(None)
            continue
        rep.observe((cn, d))
        if must_reject and v["accepted"]:
            rep.violation("C13:mutable-dependence-accepted:%s:%s" % (cn, d.split("(")[0] if d[0].isalpha() else "expr"),
                          "context %s accepts %r although its value depends on a non-constant variable" % (cn, d), v["case"])
        if not must_reject and not v["accepted"]:
            rep.violation("C13:computable-rejected:%s:%s" % (cn, d.split("(")[0] if d[0].isalpha() else "expr"),
                          "context %s rejects %r, which depends only on constants: %s" % (cn, d, v["errors"][:2]), v["case"])
    rep.sample({"context": items[0][0], "dependency": items[0][1], "must_reject": items[0][2]})
    rep.rule = ("compile-time contexts (array sizes incl. 2-d / struct field / template-level, range bounds, scalar-set "
                "size of a used type, global/const/array/template initialisers, arguments of by-value, bounded, const-"
                "reference parameters and of partial instantiations) x dependency expressions labelled mutable (direct, "
                "array/field, through functions with call chains up to depth 4, inside if/loop, through parameters) or "
                "pure; free / bound / forwarded process parameters in array sizes; distinct = (context, dependency)")


def replay(data):
    from ..runner import Case, run_cases
    import json
    c = Case.from_json(data["case"])
    print(json.dumps(run_cases([c])[c.id], indent=1)[:6000])
