"""C02 - parsed expression trees follow the language's precedence and associativity.

Oracle: the generator's abstract tree (vp/gen_expr.py), rendered with minimal and with full parentheses from a
reference operator table, compared with the S-expression dump of the tree the real parser built."""
import random
import struct

from .. import exprlab, gen_expr as G, sexpr, xmlgen
from ..runner import Case, Step, run_cases

PRELUDE = G.PRELUDE

INT_LITS = ["0", "1", "007", "0000", "2147483647", "02147483647", "2147483648", "2147483649", "4294967295", "4294967296",
            "4294967297", "9999999999", "99999999999999999999", "18446744073709551617", "-2147483648", "- 2147483648",
            "-2147483647", "-2147483649", "- 1", "-0", "1 - 2147483647", "-(2147483647)", "-(2147483648)"]
DBL_LITS = ["0.0", "0.1", "0.5", "1.5", "2.0", "1e308", "1.7976931348623157e308", "1.7976931348623158e308",
            "4.9e-324", "4.94065645841246544e-324", "2.2250738585072014e-308", "2.2250738585072011e-308", "1e-400",
            "1e309", "0.1000000000000000055511151231257827021181583404541015625", "0.30000000000000004",
            "123456789012345678901234567890.0", "1E5", "1e+5", "1e-5", "3.14159265358979323846264338327950288",
            "9007199254740993.0", "9007199254740992.0", "0.000001", "1e22", "1e23", "8.41e21", "5e-324", "2.4703282292062328e-324",
            "2.4703282292062327e-324", "00.5", "1.0e0"]


def _exact_int(text):
    """Exact mathematical value of an integer literal expression (only unary minus / binary minus / parens)."""
    import re
    norm = re.sub(r"\b0+(\d)", r"\1", text)      # decimal literals may carry leading zeros
    try:
        return eval(norm, {"__builtins__": {}})
    except Exception:
        return None


def _const_value(node):
    """Value of a dump that is a constant or a minus-expression over constants."""
    k = node[0] if node else None
    if k == "CONSTANT" and node[1] == "i":
        return int(node[2])
    if k == "UNARY_MINUS":
        v = _const_value(node[1])
        return None if v is None else -v
    if k == "MINUS":
        a, b = _const_value(node[1]), _const_value(node[2])
        return None if a is None or b is None else a - b
    return None


def run(rep, tier, seed):
    rng = random.Random(seed * 1000003 + 2)
    gen = G.Gen(rng)
    quick = tier == "quick"
    items = []      # dict(tree, text, mode, expect, what)

    def add(tree, what, modes=("min", "full"), noise=False):
        exp = G.dump(tree)
        for mode in modes:
            f = G.render_min if mode == "min" else G.render_full
            text = f(tree, rng, True, noise)
            items.append({"tree": tree, "text": text, "mode": mode, "expect": exp, "what": what})

    # 1. systematic: every (parent kind, operand position, child kind) at depth two
    parents = [k for k in G.Gen.ALL_KINDS if G.operand_slots(k) > 0]
    if not quick:
        parents += [k for k in list(G.BUILTIN1) + list(G.BUILTIN2) if k not in parents]
    children = list(G.Gen.ALL_KINDS)
    for pk in parents:
        for pos in range(G.operand_slots(pk)):
            for ck in children:
                if pk in G.QUANT:
                    gen.bound.append("q")
                try:
                    child = gen.of_kind(ck, 1, sub=lambda d: gen.atom())
                    tree = G.with_child(gen, pk, pos, child)
                finally:
                    if pk in G.QUANT:
                        gen.bound.pop()
                add(tree, "triple")
    # DOT / FUN_CALL parents (operands constrained by what the builder accepts at parse time)
    for ck in children:
        child = gen.of_kind(ck, 1, sub=lambda d: gen.atom())
        add(("idx", ("id", "sa"), child), "triple")
        add(("dot", ("idx", ("id", "sa"), child), "f"), "triple")
        for f, n in G.FUNCS.items():
            for p in range(n):
                args = [gen.atom() for _ in range(n)]
                args[p] = child
                add(("call", f, args), "triple", modes=("min",))
    # 2. associativity chains a op1 b op2 c for every pair of operators of one level, both shapes
    by_level = {}
    for k, (lv, _) in G.BIN.items():
        by_level.setdefault(lv, []).append(k)
    for lv, ks in sorted(by_level.items()):
        for k1 in ks:
            for k2 in ks:
                a, b, c = ("id", "i"), ("id", "j"), ("id", "k")
                add(("bin", k2, ("bin", k1, a, b), c), "assoc-left")
                add(("bin", k1, a, ("bin", k2, b, c)), "assoc-right")
    for k1 in G.ASSIGN:
        for k2 in G.ASSIGN:
            a, b, c = ("id", "i"), ("id", "j"), ("id", "k")
            add(("assign", k1, a, ("assign", k2, b, c)), "assoc-assign-right")
            add(("assign", k2, ("assign", k1, a, b), c), "assoc-assign-left")
    a, b, c, d, e = [("id", n) for n in ("b", "i", "c", "j", "k")]
    add(("ite", a, b, ("ite", c, d, e)), "assoc-ite-right")
    add(("ite", ("ite", a, c, a), b, d), "assoc-ite-left")
    add(("ite", a, ("ite", c, b, d), e), "assoc-ite-middle")
    add(("imply", ("imply", a, c), a), "assoc-imply-left")
    add(("imply", a, ("imply", c, a)), "assoc-imply-right")
    for k in ("OR", "XOR", "AND"):
        add(("bin", k, ("imply", a, c), a), "imply-mix")
        add(("imply", ("bin", k, a, c), a), "imply-mix")
        add(("imply", a, ("bin", k, c, a)), "imply-mix")
    for u1 in G.UN_KINDS:
        for u2 in G.UN_KINDS:
            add(("un", u1, ("un", u2, ("id", "i"))), "unary-unary")
    # 3. random trees
    n_random = 15000 if quick else 600000
    for _ in range(n_random):
        add(gen.tree(rng.choice([2, 3, 3, 4, 5, 6])), "random", modes=(rng.choice(["min", "full"]),),
            noise=rng.random() < 0.3)
    # ---- run the expression contexts
    model = xmlgen.simple_model(decl=PRELUDE)
    texts = [it["text"] for it in items]
    results = exprlab.run_exprs(texts, model, batch=60, tag="x")
    seen_triples = set()
    for it, (r, case, crash) in zip(items, results):
        single = Case("replay", [case.steps[0], Step("exprs", 0, "global", 1, "S_EXPRESSION", "", it["text"])])
        if crash is not None:
            rep.crash(crash, single)
            rep.observe(None)
            continue
        if r.get("exc") is not None or r.get("nerr", 0) != 0 or "dump" not in r:
            # the generator is supposed to produce accepted text only
            rep.violation("C02:valid-text-rejected:" + sexpr.kind(sexpr.parse(it["expect"])),
                          "syntactically valid expression rejected: %r -> %s %s" % (it["text"], r.get("exc"), r.get("err0")),
                          single)
            rep.observe(None)
            continue
        got = r["dump"]
        if got != it["expect"]:
            d = sexpr.first_diff(sexpr.parse(it["expect"]), sexpr.parse(got))
            rep.violation("C02:tree-differs:%s" % d,
                          "text %r (%s parentheses) parsed to %s, the operator table prescribes %s" % (
                              it["text"], it["mode"], got, it["expect"]), single)
        sexpr.triples(sexpr.parse(got), seen_triples)
        rep.observe(got if sexpr.count_nodes(sexpr.parse(got)) >= 3 else None)
    rep.sample({"text": items[0]["text"], "expected_tree": items[0]["expect"]})
    rep.sample({"text": items[-1]["text"], "expected_tree": items[-1]["expect"]})

    # 3b. the 3.x syntax switch (newxta = false): the same operator table applies to everything that exists in both
    # syntaxes (quantifiers and the built-in functions are 4.x only)
    def _old_ok(t):
        if not isinstance(t, (tuple, list)):
            return True
        if isinstance(t, list):
            return all(_old_ok(c) for c in t)
        if t and (t[0] in ("quant", "builtin") or (t[0] == "bin" and t[1] == "XOR")):
            return False        # not keywords of the 3.x syntax (keywords.cpp: NEW only)
        return all(_old_ok(c) for c in t[1:] if isinstance(c, (tuple, list)))
    old_items = [it for it in items if it["what"] != "random" and _old_ok(it["tree"])]
    old_items += [it for it in items if it["what"] == "random" and _old_ok(it["tree"])][:3000 if quick else 40000]
    if quick:
        old_items = [it for i, it in enumerate(old_items) if it["what"] != "triple" or i % 2 == seed % 2]
    ores = exprlab.run_exprs([it["text"] for it in old_items], model, batch=60, tag="o", newxta=0)
    n_old = 0
    for it, (r, case, crash) in zip(old_items, ores):
        single = Case("replay", [case.steps[0], Step("exprs", 0, "global", 0, "S_EXPRESSION", "", it["text"])])
        if crash is not None:
            rep.crash(crash, single)
            continue
        if r.get("exc") is not None or r.get("nerr", 0) != 0 or "dump" not in r:
            rep.violation("C02:valid-text-rejected(3.x syntax):" + sexpr.kind(sexpr.parse(it["expect"])),
                          "expression rejected under the 3.x syntax switch: %r -> %s %s" % (it["text"], r.get("exc"), r.get("err0")),
                          single)
            continue
        n_old += 1
        if r["dump"] != it["expect"]:
            d = sexpr.first_diff(sexpr.parse(it["expect"]), sexpr.parse(r["dump"]))
            rep.violation("C02:tree-differs:%s" % d,
                          "text %r parsed under the 3.x syntax switch to %s, the operator table prescribes %s" % (
                              it["text"], r["dump"], it["expect"]), single)
        rep.observe("old:" + r["dump"] if sexpr.count_nodes(sexpr.parse(r["dump"])) >= 3 else None)
    rep.extra["old_syntax_texts_parsed"] = n_old

    # 4. the same trees inside whole models: as update (expression list) and guard of an edge, no static analysis
    n_model = 1500 if quick else 60000
    mcases = []
    for i in range(n_model):
        t1 = gen.tree(rng.choice([2, 3, 4]))
        t2 = gen.tree(rng.choice([2, 3]))
        t3 = gen.tree(rng.choice([1, 2, 3]))
        upd = G.render_min(t1, rng, True, rng.random() < 0.3) + " , " + G.render_min(t2, rng)
        grd = G.render_min(t3, rng)
        m = xmlgen.simple_model(decl=PRELUDE, locations=[("id0", "L0", [("invariant", G.render_min(t2, rng))], None)],
                                edges=[("id0", "id0", [("guard", grd), ("assignment", upd)])])
        exp = {"assign": "(COMMA %s %s)" % (G.dump(t1), G.dump(t2)), "guard": G.dump(t3), "inv": G.dump(t2)}
        entry, builder = rng.choice([("xml_buffer", "doc")])
        mcases.append((Case("m%d" % i, [Step("parse_builder", 0, entry, 1, builder, 1, m)], timeout=60), exp))
    mres = run_cases([c for c, _ in mcases])
    for c, exp in mcases:
        r = mres[c.id]
        if r["status"] != "ok":
            rep.crash(r, c)
            rep.observe(None)
            continue
        s = r["steps"][0]
        if s.get("exc") or s["errors"]:
            rep.violation("C02:valid-model-rejected", "model with generated labels rejected: %s %s" % (
                s.get("exc"), s["errors"][:1]), c)
            rep.observe(None)
            continue
        e0 = s["doc"]["templates"][0]["edges"][0]
        l0 = s["doc"]["templates"][0]["locations"][0]
        for name, got in (("assign", e0["assign"]), ("guard", e0["guard"]), ("inv", l0["inv"])):
            if got != exp[name]:
                d = sexpr.first_diff(sexpr.parse(exp[name]), sexpr.parse(got))
                rep.violation("C02:tree-differs:%s" % d,
                              "%s label parsed to %s, expected %s" % (name, got, exp[name]), c)
            sexpr.triples(sexpr.parse(got), seen_triples)
        rep.observe(e0["assign"])

    # 5. literals
    lit_items = []
    for t in INT_LITS:
        lit_items.append(("int", t))
    for t in DBL_LITS:
        lit_items.append(("dbl", t))
    for _ in range(1500 if quick else 100000):
        # random decimal doubles and integers near the limits
        if rng.random() < 0.5:
            mant = "%d.%s" % (rng.randrange(0, 10 ** rng.randint(1, 18)), "".join(rng.choice("0123456789") for _ in range(rng.randint(1, 25))))
            ex = rng.choice(["", "e%d" % rng.randint(-330, 308), "E+%d" % rng.randint(0, 300), "e-%d" % rng.randint(0, 330)])
            lit_items.append(("dbl", mant + ex))
        else:
            v = rng.choice([2 ** 31 - 1, 2 ** 31, 2 ** 32, 2 ** 63, 10 ** rng.randint(1, 25)]) + rng.randint(-3, 3)
            lit_items.append(("int", str(abs(v))))
    # decimal literals just beside the midpoint of two adjacent doubles: any conversion that rounds twice (through
    # float, long double, or a truncated digit string) picks the wrong neighbour for these
    from decimal import Decimal, getcontext
    getcontext().prec = 1200
    for _ in range(600 if quick else 40000):
        e = rng.choice([rng.randint(-40, 60), rng.randint(-1000, 960), rng.randint(-8, 30)])
        x = (2 ** 52 + rng.getrandbits(52)) * 2.0 ** (e - 52)
        if rng.random() < 0.15:
            x = rng.getrandbits(rng.randint(1, 52)) * 5e-324        # subnormals
        if x == 0.0 or x == float("inf"):
            continue
        import math
        y = math.nextafter(x, float("inf"))
        if y == float("inf"):
            continue
        mid = (Decimal(x) + Decimal(y)) / 2
        digits = format(mid, "f")
        if "." not in digits:
            digits += ".0"
        if len(digits) > 1100:
            continue
        k = rng.choice([1, 3, 12, 25])
        ip, fp = digits.split(".")
        up = ip + "." + fp + "0" * k + "1"                      # just above the midpoint
        # just below: decrement the last digit of the exact expansion and append 9s
        body = (ip + fp).rstrip("0") or "0"
        scale = len(fp) - (len(ip + fp) - len((ip + fp).rstrip("0"))) if (ip + fp).rstrip("0") else 0
        dn = None
        if body != "0" and scale >= 0:
            b2 = str(int(body) - 1).rjust(len(body), "0")
            b2 = b2 + "9" * k
            sc = scale + k
            b2 = b2.rjust(sc + 1, "0")
            dn = b2[:-sc] + "." + b2[-sc:]
        for t in (up, dn):
            if t and len(t) < 1150:
                lit_items.append(("dbl", t))
    lres = exprlab.run_exprs([t for _, t in lit_items], model, batch=60, tag="l")
    for (kind, text), (r, case, crash) in zip(lit_items, lres):
        single = Case("replay", [case.steps[0], Step("exprs", 0, "global", 1, "S_EXPRESSION", "", text)])
        if crash is not None:
            rep.crash(crash, single)
            rep.observe(None)
            continue
        rejected = r.get("nerr", 0) != 0 or r.get("exc") is not None or "dump" not in r
        if kind == "int":
            want = _exact_int(text)
            if rejected:
                if want is not None and -2 ** 31 <= want <= 2 ** 31 - 1 and "(" not in text and all(
                        abs(int(x)) <= 2 ** 31 - 1 for x in text.replace("-", " ").split()):
                    rep.violation("C02:int-literal-rejected", "representable integer literal %r rejected: %s" % (text, r.get("err0")), single)
            else:
                got = _const_value(sexpr.parse(r["dump"]))
                if got is None or got != want:
                    rep.violation("C02:int-literal-changed", "integer literal %r accepted as %s (exact value %s) without "
                                  "diagnostic" % (text, r["dump"], want), single)
            rep.observe("int:" + text)
        else:
            want = float(text)
            in_range = want not in (float("inf"), float("-inf"))
            if rejected:
                rep.violation("C02:double-literal-rejected", "floating literal %r rejected: %s" % (text, r.get("err0")), single)
            elif in_range:
                node = sexpr.parse(r["dump"])
                ok = node[0] == "CONSTANT" and node[1] == "d"
                if ok:
                    try:
                        gotf = float.fromhex(node[2])
                    except ValueError:
                        gotf = None
                    ok = gotf is not None and struct.pack(">d", gotf) == struct.pack(">d", want)
                if not ok:
                    rep.violation("C02:double-literal-changed", "floating literal %r converted to %s, nearest double is %s" % (
                        text, r["dump"], G.c_hex(want)), single)
            rep.observe("dbl:" + text)
    binding_pass(rep, rng, quick)
    rep.rule = ("abstract trees (all depth-2 (parent, position, child) operator triples, all same-level associativity "
                "chains, random trees up to depth 6, expression lists/guards/invariants inside whole models, literal edge "
                "values) rendered with minimal and full parentheses from a reference operator table; non-trivial = "
                "parsed tree with >= 3 nodes; distinct = distinct dumped trees")
    rep.extra["distinct_operator_triples_observed_in_parsed_trees"] = len(seen_triples)
    rep.extra["items"] = {"expression_texts": len(items), "model_contexts": len(mcases), "literals": len(lit_items)}
    rep.assumptions += ["reference operator table in vp/gen_expr.py (written from the C02 statement)",
                        "CPython float() is correctly rounded"]

POOL = ["x", "y", "z"]


class _Scopes:
    """Generator of nested scopes that declare names from a small pool again and again, with uses of a name directly
    after its declaration and later; every use is predicted by the scope rule (innermost enclosing declaration that
    precedes the use) in the labels of the document dump."""

    def __init__(self, rng, prefix):
        self.rng, self.prefix, self.counter, self.uses = rng, prefix, 0, []

    def use(self, env):
        r = self.rng
        a, b = r.choice(POOL + ["r"]), r.choice(POOL + ["r"])
        if "/it" in env[a]:
            a = "r"             # iteration binders cannot be assigned to
        self.uses.append("(ASSIGN (IDENTIFIER %s@%s) (IDENTIFIER %s@%s))" % (a, env[a], b, env[b]))
        return "%s = %s;" % (a, b)

    def use_of(self, n, env):
        r = self.rng
        if r.random() < 0.5:
            self.uses.append("(ASSIGN (IDENTIFIER %s@%s) (CONSTANT i 7))" % (n, env[n]))
            return "%s = 7;" % n
        self.uses.append("(ASSIGN (IDENTIFIER r@%s) (IDENTIFIER %s@%s))" % (env["r"], n, env[n]))
        return "r = %s;" % n

    def block(self, env, depth, taken=()):
        """text of the statements of one block (without braces); the caller has assigned the block's label"""
        r = self.rng
        label = "%s/b%d" % (self.prefix, self.counter)
        self.counter += 1
        env = dict(env)
        declared = set(taken)
        out = []
        # declarations come first in a block (the grammar wants it so); the statement that follows the last one is
        # usually a use of a name just declared
        last = None
        for _ in range(r.choice([0, 1, 1, 2, 3])):
            free = [n for n in POOL if n not in declared]
            if not free:
                break
            n = r.choice(free)
            declared.add(n)
            env[n] = label
            out.append("int %s = %d;" % (n, r.randint(0, 9)))
            last = n
        if last is not None and r.random() < 0.75:
            out.append(self.use_of(last, env))
        for _ in range(r.randint(1, 4)):
            x = r.random()
            if x < 0.55 or depth <= 0:
                out.append(self.use(env))
            elif x < 0.8:
                out.append("{ %s }" % self.block(env, depth - 1))
            elif x < 0.9:
                out.append("if (r > 0) { %s }" % self.block(env, depth - 1))
            else:
                k = r.choice(POOL + ["k"])
                env2 = dict(env)
                env2[k] = "%s/it%d" % (self.prefix, self.counter)
                self.counter += 1
                out.append("for (%s : int[0,1]) { %s }" % (k, self.block(env2, depth - 1)))
        return " ".join(out)


def binding_models(rng, n):
    """(xml, expected) pairs: expected = {"gf": [...], "lf": [...], "edges": [(guard, assign), ...]}"""
    out = []
    for _ in range(n):
        r = rng
        genv = {k: "global" for k in POOL + ["r"]}
        # global function, parameters from the pool
        gp = [k for k in POOL if r.random() < 0.25]
        sc = _Scopes(r, "F:gf")
        env = dict(genv)
        for k in gp:
            env[k] = "F:gf/b0"
        gbody = sc.block(env, 3, taken=gp)
        gf = "void gf(%s) { %s }" % (", ".join("int %s" % k for k in gp), gbody)
        # template: parameters and locals from the pool, a local function, edges with select binders
        tp = [k for k in POOL if r.random() < 0.3]
        tl = [k for k in POOL if k not in tp and r.random() < 0.4]
        tenv = dict(genv)
        for k in tp:
            tenv[k] = "T:P.param"
        for k in tl:
            tenv[k] = "T:P.local"
        sl = _Scopes(r, "T:P.F:lf")
        lp = [k for k in POOL if r.random() < 0.2]
        env = dict(tenv)
        for k in lp:
            env[k] = "T:P.F:lf/b0"
        lbody = sl.block(env, 3, taken=lp)
        lf = "void lf(%s) { %s }" % (", ".join("int %s" % k for k in lp), lbody)
        edges, eexp = [], []
        for nr in range(r.randint(1, 3)):
            eenv = dict(tenv)
            sel = [k for k in POOL if r.random() < 0.35]
            for k in sel:
                eenv[k] = "T:P.select/%d" % nr
            labels = []
            if sel:
                labels.append(("select", ", ".join("%s : int[0,3]" % k for k in sel)))
            g = r.choice(sel) if sel and r.random() < 0.7 else r.choice(POOL)       # often the binder just declared
            a, b = r.choice(POOL + ["r"]), r.choice(POOL + ["r"])
            if a in sel:
                a = "r"         # select binders are constants
            labels.append(("guard", "%s > 1" % g))
            labels.append(("assignment", "%s = %s" % (a, b)))
            if r.random() < 0.3:
                labels[-2:] = [labels[-1], labels[-2]]     # (the select label stays first: labels are read in document order)
            edges.append(("id0", "id0", labels))
            eexp.append(("(GT (IDENTIFIER %s@%s) (CONSTANT i 1))" % (g, eenv[g]),
                         "(ASSIGN (IDENTIFIER %s@%s) (IDENTIFIER %s@%s))" % (a, eenv[a], b, eenv[b])))
        xml = xmlgen.simple_model(decl="int x; int y; int z; int r;\n" + gf, tdecl=" ".join("int %s;" % k for k in tl) + "\n" + lf,
                                  params=", ".join("int &%s" % k for k in tp), locations=[("id0", "A", [], None)], edges=edges,
                                  system="P1 = P(%s); system P1;" % ", ".join("r" for _ in tp))
        out.append((xml, {"gf": sc.uses, "lf": sl.uses, "edges": eexp}))
    return out


def binding_pass(rep, rng, quick):
    """identifier binding under shadowing: names declared again in parameter lists, function bodies, nested blocks,
    iteration binders, template parameters/locals and select binders, used directly after the declaration and later"""
    import re
    ms = binding_models(rng, 1500 if quick else 15000)
    cases = [Case("b%d" % i, [Step("parse_doc", 0, "xml_buffer", 1, 1, xml)], timeout=60) for i, (xml, _) in enumerate(ms)]
    res = run_cases(cases)
    n_uses = 0
    for (xml, exp), c in zip(ms, cases):
        r = res[c.id]
        if r["status"] != "ok":
            rep.crash(r, c)
            rep.observe(None)
            continue
        s = r["steps"][0]
        if s.get("exc") or s["errors"]:
            rep.violation("C02:binding:valid-model-rejected", "%s %s" % (s.get("exc"), [e["msg"] for e in s["errors"]][:2]), c)
            rep.observe(None)
            continue
        d = s["doc"]
        got = {"gf": None, "lf": None}
        for f in d["globals"]["funcs"]:
            if f["name"] == "gf":
                got["gf"] = re.findall(r"\(expr (\(ASSIGN \(IDENTIFIER [^)]*\) \((?:IDENTIFIER|CONSTANT i) [^)]*\)\))\)", f["body"])
        t = d["templates"][0]
        for f in t["decl"]["funcs"]:
            if f["name"] == "lf":
                got["lf"] = re.findall(r"\(expr (\(ASSIGN \(IDENTIFIER [^)]*\) \((?:IDENTIFIER|CONSTANT i) [^)]*\)\))\)", f["body"])
        bad = None
        for fn in ("gf", "lf"):
            if got[fn] is None or len(got[fn]) != len(exp[fn]):
                bad = ("%s:statement-count" % fn, "%r vs %r" % (got[fn], exp[fn]))
                break
            for k, (g, w) in enumerate(zip(got[fn], exp[fn])):
                n_uses += 1
                if g != w:
                    bad = ("function-body", "statement %d of %s is %s, the scope rule prescribes %s" % (k, fn, g, w))
                    break
            if bad:
                break
        if not bad:
            if len(t["edges"]) != len(exp["edges"]):
                bad = ("edge-count", "")
            for e, (wg, wa) in zip(t["edges"], exp["edges"]):
                n_uses += 2
                if e["guard"] != wg:
                    bad = ("guard", "guard is %s, the scope rule prescribes %s" % (e["guard"], wg))
                elif e["assign"] != wa:
                    bad = ("update", "update is %s, the scope rule prescribes %s" % (e["assign"], wa))
        if bad:
            rep.violation("C02:binding-differs:%s" % bad[0], bad[1], c)
        rep.observe(("bind", tuple(exp["gf"]), tuple(exp["lf"]), tuple(exp["edges"])))
    rep.extra["binding_models"] = len(ms)
    rep.extra["identifier_uses_compared_under_shadowing"] = n_uses


def replay(data):
    from ..runner import Case, run_cases
    import json
    c = Case.from_json(data["case"])
    r = run_cases([c])[c.id]
    print(json.dumps(r, indent=1)[:6000])
