"""C08 - parsed documents satisfy the structural invariants clients rely on.

Monitor: harness/invariants.cpp walks every document after every parse (normal return, diagnostics, exception) in
the ASan build; this check drives valid, error-recovered and exception-ending parses and collects the reports."""
import random

import re

from .. import faults, gen_model as GM, workloads
from ..runner import Case, Step, run_cases


def xta_models(rng, n):
    """Textual (XTA) models: valid, with one recoverable semantic error, with edge endpoints that name something that is
    not a location of the template (a variable, constant, parameter, function, template, process, type), with token
    faults."""
    mg = GM.ModelGen(rng, 3, 5, 8)
    out = []
    for i in range(n):
        m = mg.model(rich_edges=rng.random() < 0.3)
        x = rng.random()
        tag = "xta-valid"
        if x < 0.25:
            m, d = faults.model_faults(m, rng)
            tag = "xta-semantic:" + d
        try:
            xta = GM.render_xta(m, rng)
        except KeyError:
            continue        # a fault that has no XTA rendering (dangling location id)
        if 0.25 <= x < 0.65:
            arrows = list(re.finditer(r"(?m)^(\s*)(\w+)?(\s*)(-u->|->)(\s*)(\w+)(\s*\{)", xta))
            if arrows:
                a = rng.choice(arrows)
                other = rng.choice(["g0", "N", "inc", "P0", "gx0", "c0", "p0", "l0", "lx", "int", "IP0", "AP0_0", "s0", "nosuch", "L0", "_zz"])
                if a.group(2) and rng.random() < 0.4:
                    xta = xta[:a.start(2)] + other + xta[a.end(2):]
                    tag = "xta-endpoint:source-names-" + other
                else:
                    xta = xta[:a.start(6)] + other + xta[a.end(6):]
                    tag = "xta-endpoint:target-names-" + other
        elif x >= 0.85:
            xta, _ = faults.token_faults(xta, rng, rng.choice([1, 1, 2]))
            tag = "xta-token"
        out.append((tag, xta))
    return out


def process_set_models(rng, n):
    """Models whose system line lists partial instances that still have free (bounded) parameters - sets of processes -
    through chains of instantiations, next to closed instances and the template itself; as XTA and as XML."""
    from .. import xmlgen
    out = []
    btypes = ["id_t", "int[0,1]", "sc_t", "int[1,N]"]
    for i in range(n):
        r = rng
        np_ = r.randint(1, 3)
        params = []
        for k in range(np_):
            if r.random() < 0.6:
                params.append(("const " + r.choice(btypes), "p%d" % k, True))
            else:
                params.append((r.choice(["const int", "int &", "const bool"]), "p%d" % k, False))
        tparams = ", ".join("%s %s" % (t, nm) for t, nm, _ in params)

        def arg(t):
            return "gv" if t == "int &" else ("true" if t == "const bool" else str(r.randint(0, 1)))
        # first level: binds every unbounded parameter, forwards some of the bounded ones through formals of its own
        formals, args = [], []
        for t, nm, bounded in params:
            if bounded and r.random() < 0.7:
                fn = r.choice([nm, "q" + nm[1:], "j%d" % len(formals)])
                if fn in [f for _, f in formals]:
                    fn = "j%d" % len(formals)
                formals.append((t, fn))
                args.append(fn)
            else:
                args.append(arg(t) if not bounded else ("1" if "1,N" in t or "sc_t" not in t else None))
        if None in args:            # a scalar parameter can only be forwarded
            for k, a in enumerate(args):
                if a is None:
                    formals.append((params[k][0], "s%d" % k))
                    args[k] = "s%d" % k
        if r.random() < 0.3:
            r.shuffle(formals)
        lines = ["Q(%s) = T(%s);" % (", ".join("%s %s" % f for f in formals), ", ".join(args))]
        listed = ["Q"]
        if formals and r.random() < 0.5:
            # second level: forwards or binds the formals of the first
            f2, a2 = [], []
            for t, fn in formals:
                if r.random() < 0.6 or "sc_t" in t:
                    f2.append((t, "z" + fn))
                    a2.append("z" + fn)
                else:
                    a2.append("1")
            lines.append("R(%s) = Q(%s);" % (", ".join("%s %s" % f for f in f2), ", ".join(a2)))
            listed = r.choice([["R"], ["Q", "R"], ["R", "Q"]])
        if all(b for _, _, b in params) and r.random() < 0.4:
            listed.append("T")
        decl = "const int N = 2; typedef int[0,1] id_t; typedef scalar[2] sc_t; int gv;"
        system = "\n".join(lines) + "\nsystem %s;" % r.choice([", ".join(listed), " < ".join(listed)])
        if r.random() < 0.5:
            out.append(("process-set:xta", "xta", "%s\nprocess T(%s) { state A; init A; }\n%s\n" % (decl, tparams, system)))
        else:
            out.append(("process-set:xml", "xml", xmlgen.simple_model(decl=decl, params=tparams, tname="T", system=system)))
    return out


def run(rep, tier, seed):
    rng = random.Random(seed * 1000003 + 8)
    quick = tier == "quick"
    n = 12000 if quick else 120000
    hs = workloads.hostile_models(rng, n)
    cases = []
    for i, (tag, xml) in enumerate(hs):
        entry = rng.choice(["xml_buffer", "xml_buffer", "xml_file", "xml_fd"])
        newxta = 1 if rng.random() < 0.93 else 0
        cases.append((tag, Case("h%d" % i, [Step("parse_doc", 0, entry, newxta, 0, xml)], timeout=60)))
    for i, (tag, xta) in enumerate(xta_models(rng, n // 4)):
        cases.append((tag, Case("x%d" % i, [Step("parse_doc", 0, rng.choice(["xta_buffer", "xta_file"]), 1, 0, xta)], timeout=60)))
    for i, (tag, kind, text) in enumerate(process_set_models(rng, n // 10)):
        cases.append((tag, Case("s%d" % i, [Step("parse_doc", 0, "xta_buffer" if kind == "xta" else "xml_buffer", 1, 0, text)], timeout=60)))
    res = run_cases([c for _, c in cases])
    totals = {}
    outcome = {"normal-clean": 0, "normal-with-errors": 0, "exception": 0}
    classes = {}
    for tag, c in cases:
        r = res[c.id]
        if r["status"] != "ok":
            rep.crash(r, c)
            rep.observe(None)
            continue
        s = r["steps"][0]
        oc = "exception" if s.get("exc") else ("normal-with-errors" if s["errors"] else "normal-clean")
        outcome[oc] += 1
        if tag.startswith("xta-endpoint") and oc == "normal-clean" and not any(tag.endswith(x) for x in ("-L0",)):
            # telemetry only: an endpoint naming a non-location was accepted without any diagnostic (the walker decides)
            rep.extra.setdefault("endpoint_faults_accepted_silently", []).append(tag) if len(rep.extra.get("endpoint_faults_accepted_silently", [])) < 20 else None
        classes[tag.split(":")[0] + "/" + oc] = classes.get(tag.split(":")[0] + "/" + oc, 0) + 1
        cnt = s["inv"]["counts"]
        for k, v in cnt.items():
            totals[k] = totals.get(k, 0) + v
        walked = sum(cnt.values())
        rep.observe((tag, oc, tuple(sorted(cnt.items()))) if walked > 30 else None)
        for v in s["inv"]["violations"]:
            rule, _, detail = v.partition("|")
            rep.violation("C08:%s" % rule, "after a parse ending in %s (%s, input class %s): %s" % (
                oc, s.get("exc") or ("%d errors" % len(s["errors"])), tag, v), c)
    rep.sample({"class": cases[0][0], "input": cases[0][1].steps[0].args[4].decode("utf-8", "replace")[:1200]})
    rep.rule = ("valid generated models, models with one recoverable semantic error (duplicate names, bad init, wrong "
                "argument counts, broken declarations, ...), structurally damaged XML (missing/duplicated attributes and "
                "elements, dangling refs, truncation) and token-level faults in text blocks, parsed through "
                "parse_XML_buffer/file/fd; after every parse the invariant walker visits every reachable object; "
                "non-trivial = more than 30 objects walked beyond the built-ins; distinct = distinct (class, outcome, "
                "object counts)")
    rep.extra["objects_walked"] = totals
    rep.extra["documents_by_outcome"] = outcome
    rep.extra["documents_by_class_and_outcome"] = classes


def replay(data):
    import json
    c = Case.from_json(data["case"])
    r = run_cases([c])[c.id]
    print(json.dumps(r, indent=1)[:10000])
