"""C08 - parsed documents satisfy the structural invariants clients rely on.

Monitor: harness/invariants.cpp walks every document after every parse (normal return, diagnostics, exception) in
the ASan build; this check drives valid, error-recovered and exception-ending parses and collects the reports."""
import random

from .. import workloads
from ..runner import Case, Step, run_cases


def run(rep, tier, seed):
    rng = random.Random(seed * 1000003 + 8)
    quick = tier == "quick"
    n = 5000 if quick else 120000
    hs = workloads.hostile_models(rng, n)
    cases = []
    for i, (tag, xml) in enumerate(hs):
        entry = rng.choice(["xml_buffer", "xml_buffer", "xml_file", "xml_fd"])
        newxta = 1 if rng.random() < 0.93 else 0
        cases.append((tag, Case("h%d" % i, [Step("parse_doc", 0, entry, newxta, 0, xml)], timeout=60)))
    res = run_cases([c for _, c in cases])
    totals = {}
    outcome = {"normal-clean": 0, "normal-with-errors": 0, "exception": 0}
    classes = {}
    for tag, c in cases:
        r = res[c.id]
        if r["status"] != "ok":
            rep.crash(r, c)
            rep.observe(None)
            continue
        s = r["steps"][0]
        oc = "exception" if s.get("exc") else ("normal-with-errors" if s["errors"] else "normal-clean")
        outcome[oc] += 1
        classes[tag.split(":")[0] + "/" + oc] = classes.get(tag.split(":")[0] + "/" + oc, 0) + 1
        cnt = s["inv"]["counts"]
        for k, v in cnt.items():
            totals[k] = totals.get(k, 0) + v
        walked = sum(cnt.values())
        rep.observe((tag, oc, tuple(sorted(cnt.items()))) if walked > 30 else None)
        for v in s["inv"]["violations"]:
            rule, _, detail = v.partition("|")
            rep.violation("C08:%s" % rule, "after a parse ending in %s (%s, input class %s): %s" % (
                oc, s.get("exc") or ("%d errors" % len(s["errors"])), tag, v), c)
    rep.sample({"class": cases[0][0], "input": cases[0][1].steps[0].args[4].decode("utf-8", "replace")[:1200]})
    rep.rule = ("valid generated models, models with one recoverable semantic error (duplicate names, bad init, wrong "
                "argument counts, broken declarations, ...), structurally damaged XML (missing/duplicated attributes and "
                "elements, dangling refs, truncation) and token-level faults in text blocks, parsed through "
                "parse_XML_buffer/file/fd; after every parse the invariant walker visits every reachable object; "
                "non-trivial = more than 30 objects walked beyond the built-ins; distinct = distinct (class, outcome, "
                "object counts)")
    rep.extra["objects_walked"] = totals
    rep.extra["documents_by_outcome"] = outcome
    rep.extra["documents_by_class_and_outcome"] = classes


def replay(data):
    import json
    c = Case.from_json(data["case"])
    r = run_cases([c])[c.id]
    print(json.dumps(r, indent=1)[:10000])
