"""C07 - identifiers bind to the innermost preceding declaration in scope.

Oracle: a reference resolver over the scope chain of every use site (written from the statement); the name v is
declared at a chosen subset of nine scope levels, each with a distinguishable type, and the owner of every
IDENTIFIER node is read from the document dump (identity of the frame that holds the symbol)."""
import itertools
import random
import re

from .. import xmlgen
from ..runner import Case, Step, run_cases

LEVELS = ["L0", "L1", "L2", "L3", "L4", "L5", "L6", "L7", "L8"]
OWNER = {"L0": "global", "L1": "T:P.param", "L2": "T:P.local", "L3": "F:gf/b0", "L4": "F:gf/b1", "L5": "F:gf/b2",
         "L6": "F:gf/it3", "L7": "bound0", "L8": "T:P.select/1"}
# use site -> scope chain (innermost first)
CHAINS = {
    "G0": [], "G1": ["L0"], "SYS": ["L0"],
    "F1": ["L3", "L0"], "F2": ["L4", "L3", "L0"], "F3": ["L5", "L4", "L3", "L0"], "F4": ["L4", "L3", "L0"],
    "F5": ["L3", "L0"], "F6": ["L6", "L3", "L0"], "F7": ["L3", "L0"], "F8": ["L7", "L3", "L0"], "F9": ["L3", "L0"],
    "T0": ["L1", "L0"], "T1": ["L2", "L1", "L0"], "T2": ["L2", "L1", "L0"], "INV": ["L2", "L1", "L0"],
    "E0g": ["L2", "L1", "L0"], "E0u": ["L2", "L1", "L0"], "E1g": ["L8", "L2", "L1", "L0"], "E1u": ["L8", "L2", "L1", "L0"],
    "E1s": ["L8", "L2", "L1", "L0"], "E2g": ["L2", "L1", "L0"],
}


def build(S, name="v", other="w", noise=""):
    v = name

    def nm(level):
        return v if level in S else other + level[1]
    g = []
    g.append("int r1; int r2; int r3; int r4; int r5; int r6; int r7; int r9; int r10; int r11; int r12; bool b1; chan ca[200];")
    g.append("int use_before = %s;" % v)
    g.append("int[0,100] %s;" % nm("L0"))
    g.append("int use_after = %s;" % v)
    g.append("int gf(int[0,103] %s) {" % nm("L3"))
    g.append("  r1 = %s;" % v)
    g.append("  { int[0,104] %s; r2 = %s; { int[0,105] %s; r3 = %s; } r4 = %s; }" % (nm("L4"), v, nm("L5"), v, v))
    g.append("  r5 = %s;" % v)
    g.append("  for (%s : int[0,106]) { r6 = %s; }" % (nm("L6"), v))
    g.append("  r7 = %s;" % v)
    g.append("  b1 = forall (%s : int[0,107]) %s >= 0;" % (nm("L7"), v))
    g.append("  r9 = %s;" % v)
    g.append("  return 0;\n}")
    gdecl = ("\n" + noise).join(g)
    tdecl = "int tuse0 = %s;\nint[0,102] %s;\nint tuse1 = %s;\nint tf(int q) { r10 = %s; return 0; }" % (v, nm("L2"), v, v)
    params = "const int[0,101] %s" % nm("L1")
    out = [xmlgen.HEADER, "<nta><declaration>", xmlgen.esc(gdecl), "</declaration><template><name>P</name><parameter>",
           xmlgen.esc(params), "</parameter><declaration>", xmlgen.esc(tdecl), "</declaration>",
           '<location id="a"><name>LocA</name>', xmlgen.label("invariant", "%s >= 0" % v), "</location>",
           '<location id="b"><name>LocB</name></location><init ref="a"/>',
           '<transition><source ref="a"/><target ref="b"/>', xmlgen.label("guard", "%s > 0" % v), xmlgen.label("assignment", "r11 = %s" % v),
           "</transition>",
           '<transition><source ref="a"/><target ref="b"/>', xmlgen.label("select", "%s : int[0,108]" % nm("L8")),
           xmlgen.label("guard", "%s > 1" % v), xmlgen.label("synchronisation", "ca[%s]!" % v), xmlgen.label("assignment", "r12 = %s" % v),
           "</transition>",
           '<transition><source ref="b"/><target ref="a"/>', xmlgen.label("guard", "%s > 2" % v), "</transition>",
           "</template><system>", xmlgen.esc("int sys_use = %s;\nP1 = P(3);\nsystem P1;" % v), "</system></nta>"]
    return "".join(out)


def observed(doc, v="v"):
    """site -> owner label (or 'UNKNOWN' when the builder put its 'false' placeholder, or '?' if not found)."""
    obs = {}
    ident = re.compile(r"\(IDENTIFIER %s@([^)]*)\)" % re.escape(v))

    def own(dump):
        m = ident.search(dump)
        if m:
            return m.group(1)
        return "UNKNOWN" if "(CONSTANT b 0)" in dump else "?"
    gv = {x["name"]: x for x in doc["globals"]["vars"]}
    obs["G0"] = own(gv["use_before"]["init"]) if "use_before" in gv else "?"
    obs["G1"] = own(gv["use_after"]["init"]) if "use_after" in gv else "?"
    obs["SYS"] = own(gv["sys_use"]["init"]) if "sys_use" in gv else "?"
    gf = [f for f in doc["globals"]["funcs"] if f["name"] == "gf"]
    body = gf[0]["body"] if gf else ""
    for site, r in (("F1", "r1"), ("F2", "r2"), ("F3", "r3"), ("F4", "r4"), ("F5", "r5"), ("F6", "r6"), ("F7", "r7"), ("F9", "r9")):
        m = re.search(r"\(ASSIGN \(IDENTIFIER %s@global\) (\(IDENTIFIER %s@[^)]*\)|\(CONSTANT b 0\))\)" % (r, re.escape(v)), body)
        obs[site] = own(m.group(1)) if m else "?"
    m = re.search(r"\(FORALL \(bind \S+ <[^ ]* .*?>\) \(GE (\(IDENTIFIER %s@[^)]*\)|\(CONSTANT b 0\)) " % re.escape(v), body)
    obs["F8"] = own(m.group(1)) if m else "?"
    t = doc["templates"][0]
    tv = {x["name"]: x for x in t["decl"]["vars"]}
    obs["T0"] = own(tv["tuse0"]["init"]) if "tuse0" in tv else "?"
    obs["T1"] = own(tv["tuse1"]["init"]) if "tuse1" in tv else "?"
    tf = [f for f in t["decl"]["funcs"] if f["name"] == "tf"]
    m = re.search(r"\(ASSIGN \(IDENTIFIER r10@global\) (\(IDENTIFIER %s@[^)]*\)|\(CONSTANT b 0\))\)" % re.escape(v), tf[0]["body"] if tf else "")
    obs["T2"] = own(m.group(1)) if m else "?"
    obs["INV"] = own(t["locations"][0]["inv"])
    e = t["edges"]
    if len(e) >= 3:
        obs["E0g"], obs["E0u"] = own(e[0]["guard"]), own(e[0]["assign"].replace("(IDENTIFIER r11@global)", ""))
        obs["E1g"], obs["E1u"] = own(e[1]["guard"]), own(e[1]["assign"].replace("(IDENTIFIER r12@global)", ""))
        obs["E1s"] = own(e[1]["sync"])
        obs["E2g"] = own(e[2]["guard"])
    return obs


def run(rep, tier, seed):
    rep.level = "fault_enumeration"
    rng = random.Random(seed * 1000003 + 7)
    quick = tier == "quick"
    subsets = []
    for k in range(len(LEVELS) + 1):
        for c in itertools.combinations(LEVELS, k):
            if "L1" in c and "L2" in c:
                continue        # parameter and local of one template share a scope: a duplicate definition, not shadowing
            subsets.append(set(c))
    names = ["v", "x", "A", "sup", "i", "U", "long_identifier_name_0123456789", "_v", "v$1"]
    cases = []
    for S in subsets:
        reps = 3 if quick else 40
        for _ in range(reps):
            name = rng.choice(names)
            noise = rng.choice(["", "", "// c\n", "/* c */ "])
            xml = build(S, name, "w" if name != "w" else "u", noise)
            entry = rng.choice(["xml_buffer"])
            cases.append((S, name, Case("s%d" % len(cases), [Step("parse_builder", 0, entry, 1, "doc", 1, xml)], timeout=60)))
    res = run_cases([c for _, _, c in cases])
    sites_checked = 0
    for S, name, c in cases:
        r = res[c.id]
        if r["status"] != "ok":
            rep.crash(r, c)
            rep.observe(None)
            continue
        s = r["steps"][0]
        if s.get("exc"):
            rep.violation("C07:parse-throws", "scoping model ended in %s" % s["exc"], c)
            continue
        obs = observed(s["doc"], name)
        rep.observe((tuple(sorted(S)), name))
        n_unknown_expected = 0
        for site, chain in CHAINS.items():
            want = "UNKNOWN"
            for lv in chain:
                if lv in S:
                    want = OWNER[lv]
                    break
            if want == "UNKNOWN":
                n_unknown_expected += 1
            got = obs.get(site, "?")
            # functions of templates carry the template prefix in their owner label
            sites_checked += 1
            if got != want:
                rep.violation("C07:wrong-binding:%s:want=%s,got=%s" % (site, want, got),
                              "declared at %s: use site %s of %r is bound to %s, the scope rule prescribes %s" % (
                                  sorted(S), site, name, got, want), c)
        unk = [e for e in s["errors"] if "Unknown_identifier" in e["msg"] and e["msg"].endswith(name)]
        if len(unk) != n_unknown_expected:
            rep.violation("C07:unknown-identifier-count", "declared at %s: %d uses have no declaration in scope, %d "
                          "'unknown identifier' errors reported" % (sorted(S), n_unknown_expected, len(unk)), c)
    # process-qualified names in queries
    qcases = []
    for S in ([set(), {"L0"}, {"L1"}, {"L2"}, {"L0", "L1"}, {"L0", "L2"}, {"L0", "L2", "L8"}, {"L3", "L4"}]):
        xml = build(S)
        qcases.append((S, Case("q%d" % len(qcases), [Step("parse_builder", 0, "xml_buffer", 1, "doc", 0, xml), Step("query", 0, "", "E<> P1.v >= 0", "E<> v >= 0", "E<> P1.LocA && P1.tuse1 >= 0")], timeout=60)))
    qres = run_cases([c for _, c in qcases])
    for S, c in qcases:
        r = qres[c.id]
        if r["status"] != "ok":
            rep.crash(r, c)
            continue
        q = r["steps"][1]["results"]
        rep.observe(("query", tuple(sorted(S))))
        has_member = "L1" in S or "L2" in S
        ok0 = not q[0]["nerr"] and q[0]["props"]
        if has_member:
            want_idx = 0 if "L1" in S else 2
            d = q[0]["props"][0]["dump"] if ok0 else ""
            if not ok0 or "(DOT #%d (IDENTIFIER P1@global) .v)" % want_idx not in d:
                rep.violation("C07:qualified-name:member-not-bound", "declared at %s: 'P1.v' gives %s %s" % (sorted(S), q[0]["errors"], d), c)
        elif ok0:
            rep.violation("C07:qualified-name:bound-without-member", "P has no member v (declared at %s) but 'P1.v' was accepted: %s" % (
                sorted(S), q[0]["props"][0]["dump"]), c)
        ok1 = not q[1]["nerr"] and q[1]["props"]
        if ("L0" in S) != bool(ok1):
            rep.violation("C07:unqualified-name-in-query", "declared at %s: query 'E<> v >= 0' %s" % (sorted(S), "accepted" if ok1 else "rejected"), c)
        elif ok1 and "(IDENTIFIER v@global)" not in q[1]["props"][0]["dump"]:
            rep.violation("C07:unqualified-name-in-query-binding", "query 'E<> v >= 0' bound to %s" % q[1]["props"][0]["dump"], c)
    # P.x is typed with P's arguments substituted, also through chains of partial instantiations
    tmodel = xmlgen.simple_model(decl="const int K = 7;", params="const int M, const int L", tdecl="int[L, M] y; int[0, M + 1] z; int plain;",
                                 system="D = P(4, 1);\nQ(const int M2) = P(M2, 2);\nR = Q(5);\nQ2(const int A, const int B) = P(B, A);\nS = Q2(0, 9);\n"
                                        "Q3(const int C) = Q2(1, C);\nT = Q3(K);\nsystem D, R, S, T;")
    want = {"D": ("(CONSTANT i 1)", "(CONSTANT i 4)"), "R": ("(CONSTANT i 2)", "(CONSTANT i 5)"), "S": ("(CONSTANT i 0)", "(CONSTANT i 9)"),
            "T": ("(CONSTANT i 1)", "(IDENTIFIER K@global)")}
    tc = Case("ptype", [Step("parse_doc", 0, "xml_buffer", 1, 0, tmodel),
                        Step("query", 0, "", *["E<> %s.y >= 0 && %s.z >= 0 && %s.plain == 0" % (p, p, p) for p in want])], timeout=60)
    for rep_i in range(3):
        tr = run_cases([tc])[tc.id]
        if tr["status"] != "ok":
            rep.crash(tr, tc)
            break
        if tr["steps"][0]["errors"] or tr["steps"][0].get("exc"):
            rep.inconclusive_case("member-type model rejected: %s" % tr["steps"][0]["errors"][:1])
            break
        for pname, q in zip(want, tr["steps"][1]["results"]):
            rep.observe(("member-type", pname))
            if q["nerr"] or not q["props"]:
                rep.violation("C07:qualified-name:member-rejected", "query on %s.y rejected: %s" % (pname, q["errors"]), tc)
                continue
            mt = dict((d.split(" .")[-1].rstrip(")"), t) for d, t in q["props"][0]["member_types"])
            lo, hi = want[pname]
            wy = "<RANGE <INT> <UNKNOWN %s> <UNKNOWN %s>>" % (lo, hi)
            wz = "<RANGE <INT> <UNKNOWN (CONSTANT i 0)> <UNKNOWN (PLUS %s (CONSTANT i 1))>>" % hi
            if mt.get("y") != wy or mt.get("z") != wz:
                rep.violation("C07:qualified-name:arguments-not-substituted", "%s.y has type %s and %s.z has type %s; with %s's arguments "
                              "substituted they are %s and %s" % (pname, mt.get("y"), pname, mt.get("z"), pname, wy, wz), tc)
    run_fixture2(rep, rng, quick)
    rep.sample({"declared_at": sorted(cases[37][0]), "name": cases[37][1], "model": cases[37][2].steps[0].args[5].decode()[:1500]})
    rep.rule = ("the contested name declared at every subset of nine scope levels (global, template parameter, template "
                "local, function parameter, block, nested block, iteration binder, quantifier binder, select binder; "
                "parameter+local excluded) x 22 use sites (before/after declarations, in/after nested scopes, labels of "
                "edges with and without select, system section, template functions) + process-qualified and unqualified "
                "names in queries; soft-keyword-like names included; distinct = (subset, name)")
    rep.extra["use_sites_checked"] = sites_checked


# ------------------------------------------------------------------------------------------------------------
# second fixture: type names, nested binders, and scopes after error recovery
TLEVELS = ["global", "tlocal", "fblock", "fnested"]
TRANGE = {"global": 200, "tlocal": 202, "fblock": 204, "fnested": 205}


def build_types(S, name="T"):
    """typedef <name> at the global level and at every level in S, each with its own range; variables, parameters and
    binders of that type declared before and after each typedef.  The upper bound of a variable's range names the
    typedef its type was bound to."""
    T = name

    def td(level):
        return "typedef int[0,%d] %s;" % (TRANGE[level], T) if level in S or level == "global" else ""
    g = ["int r0;", td("global"), "%s g_after;" % T,
         "int gf(%s p_par) {" % T, "  %s f_before;" % T, "  {", "    %s b_before;" % T if False else "",
         "    " + td("fblock"), "    %s b_after;" % T, "    {", "      " + td("fnested"), "      %s n_after;" % T,
         "      for (it : %s) { r0 = it; }" % T, "      r0 = sum (q : %s) q;" % T, "    }", "    r0 = forall (q2 : %s) q2 >= 0;" % T, "  }",
         "  for (it2 : %s) { r0 = it2; }" % T, "  return 0;", "}", "%s g_last;" % T]
    tdecl = "%s t_before;\n%s\n%s t_after;\nint tf(%s tp) { %s tl; return 0; }" % (T, td("tlocal"), T, T, T)
    out = [xmlgen.HEADER, "<nta><declaration>", xmlgen.esc("\n".join(x for x in g if x)), "</declaration><template><name>P</name>",
           "<parameter>", xmlgen.esc("%s &ppar" % T), "</parameter><declaration>", xmlgen.esc(tdecl), "</declaration>",
           '<location id="a"><name>LocA</name></location><init ref="a"/>',
           '<transition><source ref="a"/><target ref="a"/>', xmlgen.label("select", "sel : %s" % T), xmlgen.label("guard", "forall (qg : %s) qg + sel >= 0" % T),
           "</transition></template><system>", xmlgen.esc("%s sys_v;\nP1 = P(g_after);\nsystem P1;" % T), "</system></nta>"]
    return "".join(out)


def type_expect(S):
    def inner(*chain):
        for lv in chain:
            if lv in S:
                return TRANGE[lv]
        return TRANGE["global"]
    return {"g_after": inner(), "g_last": inner(), "sys_v": inner(), "p_par": inner(), "f_before": inner(),
            "b_after": inner("fblock"), "n_after": inner("fnested", "fblock"), "it": inner("fnested", "fblock"),
            "q": inner("fnested", "fblock"), "q2": inner("fblock"), "it2": inner(), "ppar": inner(), "t_before": inner(),
            "t_after": inner("tlocal"), "tp": inner("tlocal"), "tl": inner("tlocal"), "sel": inner("tlocal"), "qg": inner("tlocal")}


def type_observed(doc):
    """variable / parameter / binder name -> upper bound of the range its type was bound to"""
    import json
    txt = json.dumps(doc)
    obs = {}
    for nm in type_expect(set()):
        # declared variables, parameters, selects: {"name": nm, "type": "...(CONSTANT i 0)> <UNKNOWN (CONSTANT i N)>..."}
        m = re.search(r'"name": "%s", "type": "((?:[^"\\]|\\.)*)"' % nm, txt)
        t = m.group(1) if m else None
        if t is None:
            # binders inside dumped bodies / labels: (bind nm <...>)
            m = re.search(r"\(bind %s (<.*?>)\)" % nm, txt)
            t = m.group(1) if m else None
        if t is None:
            # iteration binders are local variables of the function body: "(it nm <type>"
            m = re.search(r"\b%s\b[^<\"]{0,12}(<(?:CONSTANT )?<?LABEL[^\"]*?>>>)" % nm, txt)
            t = m.group(1) if m else None
        if t is None:
            obs[nm] = None
            continue
        m = re.search(r"\(CONSTANT i 0\)> <UNKNOWN \(CONSTANT i (\d+)\)>", t)
        obs[nm] = int(m.group(1)) if m else None
    return obs


NESTS = [
    # (function body template with %s for the braces, description)
    ("for (x : int[0,1]) %s for (j : int[0,2]) %s r0 = x + j; %s %s", "iteration/iteration"),
    ("for (x : int[0,1]) %s for (j : int[0,2]) %s for (k : int[0,3]) r0 = x + j + k; %s %s", "iteration/iteration/iteration"),
    ("for (x : int[0,1]) %s for (x2 : int[0,2]) %s r0 = (forall (j : int[0,3]) x + j >= x2) ? 1 : 0; %s %s", "iteration/iteration/forall"),
    ("for (x : int[0,1]) %s while (r0 < 3) %s r0 = r0 + x; %s %s", "iteration/while"),
    ("for (x : int[0,1]) %s if (x > 0) %s r0 = x; %s %s", "iteration/if"),
    ("for (x : int[0,1]) %s do %s r0 = r0 + x; %s while (r0 < 3); %s", "iteration/do"),
    ("for (x : int[0,1]) %s for (r0 = 0; r0 < x; r0++) %s r0 = r0 + x; %s %s", "iteration/for"),
]


def build_nest(i, braced):
    body, _ = NESTS[i]
    b = ("{", "{", "}", "}") if braced else ("", "", "", "")
    decl = "clock x; clock j; int r0;\nvoid f() { %s }" % (body % b)
    return xmlgen.simple_model(decl=decl)


FAULTY = [
    # (description, replacements applied to the template F of build_recovery)
    ("none", []),
    ("edge:both-endpoints-foreign", [('<source ref="fa"/><target ref="fb"/>', '<source ref="ga"/><target ref="gb"/>')]),
    ("edge:source-foreign", [('<source ref="fa"/><target ref="fb"/>', '<source ref="ga"/><target ref="fb"/>')]),
    ("edge:target-foreign", [('<source ref="fa"/><target ref="fb"/>', '<source ref="fa"/><target ref="gb"/>')]),
    ("edge:both-foreign-twice", [('<source ref="fa"/><target ref="fb"/>', '<source ref="ga"/><target ref="gb"/>'),
                                 ('<source ref="fb"/><target ref="fa"/>', '<source ref="gb"/><target ref="ga"/>')]),
    ("select:syntax", [("sel : int[0,3]", "sel : int[0,3")]),
    ("select:unknown-type", [("sel : int[0,3]", "sel : nosuchtype")]),
    ("guard:syntax", [("v &gt; 1 &amp;&amp; sel &gt;= 0", "v &gt; 1 &amp;&amp; ( sel")]),
    ("sync:syntax", [("ca[sel]!", "ca[sel!")]),
    ("assign:syntax", [("r1 = v", "r1 = = v")]),
    ("init:unknown", [('<init ref="fa"/>', '<init ref="nowhere"/>')]),
    ("init:foreign", [('<init ref="fa"/>', '<init ref="ga"/>')]),
    ("init:missing", [('<init ref="fa"/>', '')]),
    ("local:unclosed-function", [("int lf(int q) { return q; }", "int lf(int q) { return q; ")]),
    ("local:unclosed-block", [("int lf(int q) { return q; }", "int lf(int q) { { return q; }")]),
    ("local:bad-statement", [("int lf(int q) { return q; }", "int lf(int q) { if ( { return q; }")]),
    ("local:duplicate", [("int lf(int q) { return q; }", "int lf(int q) { return q; } int lf;")]),
    ("param:syntax", [("const int[0,101] fp", "const int[0,101 fp")]),
    ("param:duplicate", [("const int[0,101] fp", "const int[0,101] fp, int fp")]),
    ("location:duplicate-id", [('<location id="fb"><name>FB</name></location>', '<location id="fb"><name>FB</name></location><location id="fb"><name>FC</name></location>')]),
    ("location:duplicate-name", [('<location id="fb"><name>FB</name></location>', '<location id="fb"><name>FA</name></location>')]),
    ("invariant:syntax", [("v &gt;= 0</label>", "v &gt;= </label>")]),
    ("guard:truncated-forall-body", [("v &gt; 1 &amp;&amp; sel &gt;= 0", "forall (qq : int[0,1]) v + qq &gt;=")]),
    ("guard:truncated-nested-quantifiers", [("v &gt; 1 &amp;&amp; sel &gt;= 0", "forall (qq : int[0,1]) exists (rr : int[0,1]) (v + qq &gt; rr")]),
    ("invariant:truncated-forall-body", [("v &gt;= 0</label>", "forall (qq : int[0,1]) v &gt;= </label>")]),
    ("assign:truncated-sum", [("r1 = v", "r1 = sum (qq : int[0,1]) (v +")]),
    ("select:truncated", [("sel : int[0,3]", "sel : int[0,")]),
]


def build_recovery(i, f_first=True):
    """Template F (declares its own v, lf, sel) with fault i, template G (declares nothing), and a system section; all
    uses of v outside F must bind to the global v whatever went wrong inside F."""
    F = ('<template><name>F</name><parameter>const int[0,101] fp</parameter><declaration>typedef int[0,1] gid_t; int[0,102] v; int lf(int q) { return q; }</declaration>'
         '<location id="fa"><name>FA</name><label kind="invariant">v &gt;= 0</label></location><location id="fb"><name>FB</name></location><init ref="fa"/>'
         '<transition><source ref="fa"/><target ref="fb"/><label kind="select">sel : int[0,3]</label><label kind="guard">v &gt; 1 &amp;&amp; sel &gt;= 0</label>'
         '<label kind="synchronisation">ca[sel]!</label><label kind="assignment">r1 = v</label></transition>'
         '<transition><source ref="fb"/><target ref="fa"/><label kind="guard">v &gt; 2</label></transition></template>')
    for a, b in FAULTY[i][1]:
        assert a in F, (FAULTY[i][0], a)
        F = F.replace(a, b, 1)
    G = ('<template><name>G</name><parameter>const int[0,111] gp, const gid_t me</parameter><declaration>int guse = v; gid_t gl;</declaration>'
         '<location id="ga"><name>GA</name><label kind="invariant">v &gt;= 0</label></location><location id="gb"><name>GB</name></location><init ref="ga"/>'
         '<transition><source ref="ga"/><target ref="gb"/><label kind="guard">v &gt; 3</label><label kind="assignment">r2 = v + gp</label></transition></template>')
    gdecl = "typedef int[0,7] gid_t; int[0,100] v; int r1; int r2; chan ca[4];"
    sysd = "int sys_use = v;\ngid_t sys_t;\nF1 = F(1);\nG1 = G(v, 1);\nsystem F1, G1;"
    ts = F + G if f_first else G + F
    return (xmlgen.HEADER + "<nta><declaration>" + xmlgen.esc(gdecl) + "</declaration>" + ts + "<system>" + xmlgen.esc(sysd) +
            "</system></nta>")


def recovery_observed(doc):
    obs = {}
    ident = re.compile(r"\(IDENTIFIER v@([^)]*)\)")

    def own(dump):
        m = ident.search(dump or "")
        return m.group(1) if m else ("UNKNOWN" if "(CONSTANT b 0)" in (dump or "") else "?")
    gv = {x["name"]: x for x in doc["globals"]["vars"]}
    obs["SYS"] = own(gv["sys_use"]["init"]) if "sys_use" in gv else "?"
    for t in doc["templates"]:
        if t["name"] != "G":
            continue
        tv = {x["name"]: x for x in t["decl"]["vars"]}
        obs["G.local-init"] = own(tv["guse"]["init"]) if "guse" in tv else "?"
        obs["G.invariant"] = own(t["locations"][0]["inv"]) if t["locations"] else "?"
        if t["edges"]:
            obs["G.guard"] = own(t["edges"][0]["guard"])
            obs["G.update"] = own(t["edges"][0]["assign"])
    for i in doc["instances"]:
        if i["name"] == "G1":
            obs["G1.argument"] = own(" ".join(v for k, v in i["mapping"].items() if k.startswith("gp")))
    # the type name gid_t (global: [0,7]; F declares its own [0,1]) used outside F
    def ub(t):
        m = re.search(r"\(CONSTANT i 0\)> <UNKNOWN \(CONSTANT i (\d+)\)>", t or "")
        return ("global" if m.group(1) == "7" else "typedef-with-bound-" + m.group(1)) if m else "?"
    if "sys_t" in gv:
        obs["SYS.type-name"] = ub(gv["sys_t"]["type"])
    for t in doc["templates"]:
        if t["name"] == "G":
            for p in t["params"]:
                if p["name"] == "me":
                    obs["G.parameter-type-name"] = ub(p["type"])
            for x in t["decl"]["vars"]:
                if x["name"] == "gl":
                    obs["G.local-type-name"] = ub(x["type"])
    return obs


def run_fixture2(rep, rng, quick):
    # ---- type names
    cases = []
    for k in range(4):
        for c in itertools.combinations(TLEVELS[1:], k):
            for name in (["T", "id_t"] if quick else ["T", "id_t", "Atype", "u_t", "size_t", "t"]):
                xml = build_types(set(c), name)
                cases.append((set(c), name, Case("ty%d" % len(cases), [Step("parse_builder", 0, "xml_buffer", 1, "doc", 1, xml)], timeout=60)))
    res = run_cases([c for _, _, c in cases])
    n = 0
    for S, name, c in cases:
        r = res[c.id]
        if r["status"] != "ok":
            rep.crash(r, c)
            continue
        s = r["steps"][0]
        if s.get("exc") or s["errors"]:
            rep.violation("C07:type-name:valid-model-rejected", "typedef %s at %s: %s %s" % (name, sorted(S), s.get("exc"), s["errors"][:2]), c)
            continue
        obs = type_observed(s["doc"])
        rep.observe(("types", tuple(sorted(S)), name))
        for site, want in type_expect(S).items():
            got = obs.get(site)
            n += 1
            if got is None:
                rep.inconclusive_case("type of %s not found in the dump" % site)
            elif got != want:
                rep.violation("C07:type-name:wrong-binding:%s" % site, "typedef %s declared at global+%s: the type of %s is bound to the "
                              "typedef with range [0,%s], the scope rule prescribes [0,%d]" % (name, sorted(S), site, got, want), c)
    rep.extra["type_name_sites_checked"] = n
    # ---- nested binders, with and without braces
    ncases = []
    for i in range(len(NESTS)):
        for braced in (False, True):
            ncases.append((i, braced, Case("ne%d%d" % (i, braced), [Step("parse_builder", 0, "xml_buffer", 1, "doc", 1, build_nest(i, braced))], timeout=60)))
    nres = run_cases([c for _, _, c in ncases])
    for i, braced, c in ncases:
        r = nres[c.id]
        if r["status"] != "ok":
            rep.crash(r, c)
            continue
        s = r["steps"][0]
        what = NESTS[i][1] + ("/braced" if braced else "/unbraced")
        if s.get("exc") or s["errors"]:
            rep.violation("C07:nested-binder:rejected:" + what, "nested binders (%s) rejected: %s %s" % (what, s.get("exc"), s["errors"][:2]), c)
            continue
        body = [f for f in s["doc"]["globals"]["funcs"] if f["name"] == "f"][0]["body"]
        rep.observe(("nest", i, braced))
        for v in ("x", "j"):
            for m in re.finditer(r"\(IDENTIFIER %s@([^)]*)\)" % v, body):
                if m.group(1) == "global":
                    rep.violation("C07:nested-binder:bound-to-global:" + what, "in %s the use of %s inside the innermost statement is "
                                  "bound to the global clock instead of the enclosing binder: %s" % (what, v, body[:600]), c)
                    break
    # ---- binders that range over the processes of dynamic templates: p.y is looked up in the template of the nearest p
    def dyn_t(name, decl):
        return ('<template><name>%s</name><declaration>%s</declaration><location id="%s0"><name>L</name></location><init ref="%s0"/></template>'
                % (name, decl, name, name))
    dyn_forms = [("forall (p : A) (forall (p : B) (p.y > 0))", ["B"]), ("forall (p : B) (exists (p : A) (p.y > 0))", ["A"]),
                 ("forall (p : A) (p.y > 0 && exists (q : B) (q.y > p.y))", ["A", "B", "A"]),
                 ("forall (p : A) (forall (q : B) (forall (p : C) (p.y > q.y)))", ["C", "B"]),
                 ("forall (p : A) ((exists (p : B) (p.y > 1)) && p.y > 2)", ["B", "A"]),
                 ("(sum (p : A) (p.y)) + (sum (p : B) (p.y)) > 0", ["A", "B"]),
                 ("forall (p : A) (forall (p : B) ((forall (p : C) (p.y > 0)) && p.y > 1))", ["C", "B"]),
                 ("forall (p : A) (forall (p : B) (forall (p : C) (p.y > 0)) && p.y > 1)", ["C", "A"]),
                 ("exists (q : C) (forall (p : A) (p.y > q.y) && exists (p : B) (p.y > q.y))", ["A", "C", "B", "C"])]
    dcases = []
    for gtext, want in dyn_forms:
        xml = (xmlgen.HEADER + "<nta><declaration>dynamic A(); dynamic B(); dynamic C(); int y;</declaration>" + dyn_t("A", "int[0,3] y;") +
               dyn_t("B", "int[0,7] y;") + dyn_t("C", "int[0,9] y; int z;") +
               '<template><name>M</name><declaration/><location id="m0"/><init ref="m0"/><transition><source ref="m0"/><target ref="m0"/>'
               '<label kind="guard">%s</label></transition></template><system>system M;</system></nta>' % xmlgen.esc(gtext))
        dcases.append((gtext, want, Case("dy%d" % len(dcases), [Step("parse_builder", 0, "xml_buffer", 1, "doc", 1, xml)], timeout=60)))
    dres = run_cases([c for _, _, c in dcases])
    for gtext, want, c in dcases:
        r = dres[c.id]
        if r["status"] != "ok":
            rep.crash(r, c)
            continue
        s = r["steps"][0]
        if s.get("exc") or s["errors"]:
            rep.violation("C07:dynamic-binder:rejected", "guard %r over dynamic templates rejected: %s %s" % (gtext, s.get("exc"), s["errors"][:2]), c)
            continue
        g = [t for t in s["doc"]["templates"] if t["name"] == "M"][0]["edges"][0]["guard"]
        got = re.findall(r"\(DYNAMIC_EVAL \(IDENTIFIER y@D:(\w+)\.local\)", g)
        rep.observe(("dynamic-binder", gtext))
        if got != want:
            rep.violation("C07:dynamic-binder:wrong-template", "in %r the members y are bound to the templates %s, the nearest binders "
                          "prescribe %s" % (gtext, got, want), c)
    # ---- process-qualified names after a process has been removed from the document (public Document::remove_process)
    pm = xmlgen.HEADER + "<nta><declaration>int g;</declaration>" + "".join(
        '<template><name>T%s</name><declaration>int[0,%d] x;</declaration><location id="%s0"><name>L</name></location><init ref="%s0"/></template>'
        % (n, 10 + k, n, n) for k, n in enumerate("ABCD")) + "<system>A = TA(); B = TB(); C = TC(); D = TD();\nsystem A, B, C, D;</system></nta>"
    for victim in ("A", "B", "D"):
        rest = [n for n in "ABCD" if n != victim]
        c = Case("rm" + victim, [Step("parse_doc", 0, "xml_buffer", 1, 0, pm), Step("remove_process", 0, victim),
                                 Step("query", 0, "", *["E<> %s.x >= 0" % n for n in "ABCD"])], timeout=60)
        r = run_cases([c])[c.id]
        if r["status"] != "ok":
            rep.crash(r, c)
            continue
        if not r["steps"][1].get("removed"):
            rep.inconclusive_case("remove_process did not find the process")
            continue
        rep.observe(("remove-process", victim))
        for n, q in zip("ABCD", r["steps"][2]["results"]):
            if n == victim:
                continue
            ok = not q["nerr"] and q["props"]
            mt = dict((d.split(" .")[-1].rstrip(")"), t) for d, t in q["props"][0]["member_types"]) if ok else {}
            wantt = "<RANGE <INT> <UNKNOWN (CONSTANT i 0)> <UNKNOWN (CONSTANT i %d)>>" % (10 + "ABCD".index(n))
            if not ok or mt.get("x") != wantt:
                rep.violation("C07:qualified-name-after-remove-process", "after remove_process(%s) the query 'E<> %s.x >= 0' gives %s / member "
                              "type %s; %s.x is declared %s" % (victim, n, q["errors"], mt.get("x"), n, wantt), c)
    # ---- parameter lists of rejected or broken declarations must not leak into the next function / template
    LEFT = [("duplicate-dynamic", "int D; dynamic D(bool a);"), ("duplicate-dynamic-two", "int D; dynamic D(bool a, bool zz);"),
            ("dynamic-bad-parameter-kind", "dynamic D2(clock &a);"), ("duplicate-function", "int dupf; void dupf(bool a) { }"),
            ("broken-function-header", "int bf(bool a {"), ("function-with-broken-body", "void bf2(bool a) { if ( }"),
            ("none", "")]
    lcases = []
    for lname, ltext in LEFT:
        for follower in ("function", "template", "dynamic"):
            if lname.startswith(("broken", "function-with-broken")) and follower != "template":
                continue        # in the same block the text that follows a broken header is legitimately read as part of it
            gd = "int[0,100] a; int r0; %s\n" % ltext
            if follower == "function":
                gd += "int f() { return a; }"
                xml = xmlgen.simple_model(decl=gd)
            elif follower == "template":
                xml = xmlgen.simple_model(decl=gd, params="const int[0,5] tp", edges=[("id0", "id0", [("guard", "a >= tp")])], system="P1 = P(1);\nsystem P1;")
            else:
                gd += "dynamic E(int ep); int g() { return a; }"
                xml = xmlgen.simple_model(decl=gd)
            lcases.append((lname, follower, Case("lp%d" % len(lcases), [Step("parse_builder", 0, "xml_buffer", 1, "doc", 1, xml)], timeout=60)))
    lres = run_cases([c for _, _, c in lcases])
    for lname, follower, c in lcases:
        r = lres[c.id]
        if r["status"] != "ok":
            rep.crash(r, c)
            continue
        sdoc = r["steps"][0]
        if sdoc.get("exc"):
            continue
        rep.observe(("leftover-parameters", lname, follower))
        d = sdoc["doc"]
        import json as _json
        txt = _json.dumps(d)
        bound = re.findall(r"\(IDENTIFIER a@([^)]*)\)", txt)
        bad = [b for b in bound if b != "global"]
        if bad:
            rep.violation("C07:leftover-parameter:%s:%s" % (lname.split("-")[0], follower), "after the declaration %r the use of a in the following %s is "
                          "bound to %s; only the global a is in scope" % (dict(LEFT)[lname], follower, bad[0]), c)
        if follower == "function":
            fs = [f for f in d["globals"]["funcs"] if f["name"] == "f"]
            if fs and fs[0].get("params") not in ([], None) and len(fs[0].get("params") or []) != 0:
                rep.violation("C07:leftover-parameter:%s:function-signature" % lname.split("-")[0], "function f() declared without parameters has "
                              "parameters %s after %r" % (fs[0].get("params"), dict(LEFT)[lname]), c)
        if follower == "template":
            ps = [p["name"] for t in d["templates"] if t["name"] == "P" for p in t["params"]]
            if ps != ["tp"]:
                rep.violation("C07:leftover-parameter:%s:template-signature" % lname.split("-")[0], "template P(tp) has parameters %s after %r" % (
                    ps, dict(LEFT)[lname]), c)
    # ---- scopes after error recovery inside one template
    rcases = []
    for i in range(len(FAULTY)):
        for f_first in (True, False):
            rcases.append((i, f_first, Case("rc%d%d" % (i, f_first), [Step("parse_builder", 0, "xml_buffer", 1, "doc", 1, build_recovery(i, f_first))], timeout=60)))
    rres = run_cases([c for _, _, c in rcases])
    for i, f_first, c in rcases:
        r = rres[c.id]
        if r["status"] != "ok":
            rep.crash(r, c)
            continue
        s = r["steps"][0]
        if s.get("exc"):
            rep.observe(None)
            continue            # the whole parse ended in an exception: no document to look at
        obs = recovery_observed(s["doc"])
        rep.observe(("recovery", i, f_first))
        if FAULTY[i][0] == "none" and s["errors"]:
            rep.violation("C07:recovery-fixture-rejected", "fault-free fixture rejected: %s" % s["errors"][:2], c)
        for site, got in obs.items():
            if got not in ("global",):
                rep.violation("C07:scope-after-error:%s:%s" % (FAULTY[i][0].split(":")[0], site), "after the fault '%s' inside template F "
                              "(F %s G) the use of v at %s is bound to %s; outside F only the global v is in scope" % (
                                  FAULTY[i][0], "before" if f_first else "after", site, got), c)


def replay(data):
    import json
    c = Case.from_json(data["case"])
    r = run_cases([c])[c.id]
    print(json.dumps(r, indent=1)[:8000])
