"""C10 - only convex clock constraints are accepted as guards and invariants.

Oracle: a reference classifier over the abstract formula tree, written from the property statement."""
import itertools
import random

from .. import accept, gen_expr as G, xmlgen

DECL = "clock x, y; int i, j; bool b; const int N = 3;"

# leaves: (class, tree); CLK* are atomic clock comparisons
LEAVES = {
    "INT": [("bin", "LT", ("id", "i"), ("int", 3)), ("id", "b"), ("bin", "EQ", ("id", "i"), ("id", "j")), ("bin", "GE", ("bin", "PLUS", ("id", "i"), ("id", "N")), ("int", 2))],
    "CLKU": [("bin", "LE", ("id", "x"), ("int", 5)), ("bin", "LT", ("id", "y"), ("id", "N")), ("bin", "GE", ("int", 7), ("id", "x"))],
    "CLKL": [("bin", "GE", ("id", "x"), ("int", 2)), ("bin", "GT", ("id", "y"), ("int", 1)), ("bin", "LT", ("int", 1), ("id", "x"))],
    "CLKD": [("bin", "LE", ("bin", "MINUS", ("id", "x"), ("id", "y")), ("int", 3)), ("bin", "GT", ("bin", "MINUS", ("id", "y"), ("id", "x")), ("int", 0))],
    "CLKE": [("bin", "EQ", ("id", "x"), ("int", 4)), ("bin", "EQ", ("int", 2), ("id", "y"))],
    # bounds that are floating point values: still atomic clock comparisons
    "CLKF": [("bin", "LT", ("id", "x"), ("dbl", "1.5")), ("bin", "GE", ("bin", "MINUS", ("id", "x"), ("id", "y")), ("dbl", "1.5")),
             ("bin", "GT", ("dbl", "2.5"), ("id", "y")), ("bin", "LE", ("bin", "MINUS", ("id", "y"), ("id", "x")), ("dbl", "0.5"))],
    # disequalities over clocks: atomic, but not convex
    "CLKN": [("bin", "NEQ", ("id", "x"), ("int", 3)), ("bin", "NEQ", ("id", "x"), ("id", "y")),
             ("bin", "NEQ", ("bin", "MINUS", ("id", "x"), ("id", "y")), ("int", 2)), ("bin", "NEQ", ("id", "x"), ("dbl", "1.5"))],
}
BINARY = ["AND", "OR", "imply", "XOR", "EQ", "NEQ"]


def cls_leaf(k):
    return "INT" if k == "INT" else ("NONCONVEX" if k == "CLKN" else "CLK")


def classify(f):
    """f = ("leaf", kind, tree) | ("not", f) | (op, f, g) | ("forall"|"exists", f)  ->  INT | CLK | NONCONVEX"""
    k = f[0]
    if k == "leaf":
        return cls_leaf(f[1])
    if k == "not":
        return "INT" if classify(f[1]) == "INT" else "NONCONVEX"
    if k in ("forall", "exists"):
        c = classify(f[1])
        if k == "forall":
            return c
        return "INT" if c == "INT" else "NONCONVEX"
    a, b = classify(f[1]), classify(f[2])
    if k == "AND":
        if a == "INT" and b == "INT":
            return "INT"
        if "NONCONVEX" in (a, b):
            return "NONCONVEX"
        return "CLK"
    if k == "OR":
        if a == "INT" and b == "INT":
            return "INT"
        if (a, b) in (("INT", "CLK"), ("CLK", "INT")):
            return "CLK"
        return "NONCONVEX"
    if k == "imply":      # !a || b
        na = "INT" if a == "INT" else "NONCONVEX"
        if na == "INT" and b == "INT":
            return "INT"
        if na == "INT" and b == "CLK":
            return "CLK"
        return "NONCONVEX"
    if k in ("XOR", "EQ", "NEQ"):
        return "INT" if a == "INT" and b == "INT" else "NONCONVEX"
    raise ValueError(f)


def tree(f, rng):
    k = f[0]
    if k == "leaf":
        return f[2]
    if k == "not":
        return ("un", "NOT", tree(f[1], rng))
    if k in ("forall", "exists"):
        return ("quant", k.upper(), "q", "int[0,1]", tree(f[1], rng))
    if k == "imply":
        return ("imply", tree(f[1], rng), tree(f[2], rng))
    return ("bin", k, tree(f[1], rng), tree(f[2], rng))


def shape(f):
    k = f[0]
    if k == "leaf":
        return f[1]
    if k in ("not", "forall", "exists"):
        return "%s(%s)" % (k, shape(f[1]))
    return "%s(%s,%s)" % (k, shape(f[1]), shape(f[2]))


def is_plain_conjunction(f):
    if f[0] == "leaf":
        return True
    return f[0] == "AND" and is_plain_conjunction(f[1]) and is_plain_conjunction(f[2])


def leaves_of(f):
    if f[0] == "leaf":
        return [f]
    return [l for x in f[1:] if isinstance(x, tuple) for l in leaves_of(x)]


def model(ctx, text):
    if ctx == "guard":
        return xmlgen.simple_model(decl=DECL, locations=[("id0", "L0", [], None), ("id1", "L1", [], None)],
                                   edges=[("id0", "id1", [("guard", text)])])
    return xmlgen.simple_model(decl=DECL, locations=[("id0", "L0", [("invariant", text)], None)])


def run(rep, tier, seed):
    rng = random.Random(seed * 1000003 + 10)
    quick = tier == "quick"

    def leaf(kind):
        return ("leaf", kind, rng.choice(LEAVES[kind]))

    kinds = list(LEAVES)
    forms = []
    for k in kinds:
        forms.append(leaf(k))
        forms.append(("not", leaf(k)))
        forms.append(("forall", leaf(k)))
        forms.append(("exists", leaf(k)))
    # depth 2: every connective over every ordered pair of leaf kinds, and unary wrappers of those
    d2 = []
    for op in BINARY:
        for a, b in itertools.product(kinds, kinds):
            d2.append((op, leaf(a), leaf(b)))
    forms += d2
    for f in d2:
        forms.append(("not", f))
        forms.append(("forall", f))
        forms.append(("exists", f))
    # depth 3, systematic: every pair of connectives in both nestings over every triple of leaf kinds (rendered with
    # minimal parentheses, so the relative precedence and associativity of the connectives matter); quick: a third
    d3 = []
    for op1, op2 in itertools.product(BINARY, BINARY):
        for a, b, c in itertools.product(kinds, kinds, kinds):
            d3.append((op1, (op2, leaf(a), leaf(b)), leaf(c)))
            d3.append((op1, leaf(a), (op2, leaf(b), leaf(c))))
    if quick:
        d3 = [f for i, f in enumerate(d3) if i % 3 == seed % 3]
    forms += d3
    # depth 3 and 4: sampled
    pool = list(forms[:len(forms) - len(d3)])
    for _ in range(4000 if quick else 40000):
        r = rng.random()
        if r < 0.7:
            f = (rng.choice(BINARY), rng.choice(pool), rng.choice(pool))
        else:
            f = (rng.choice(["not", "forall", "exists"]), rng.choice(pool))
        forms.append(f)
        if rng.random() < 0.3:
            pool.append(f)
    # plain conjunctions of 2..5 atoms (completeness clause)
    for _ in range(600 if quick else 8000):
        ls = [leaf(rng.choice(kinds)) for _ in range(rng.randint(2, 5))]
        f = ls[0]
        for l in ls[1:]:
            f = ("AND", f, l) if rng.random() < 0.5 else ("AND", l, f)
        forms.append(f)
    items = []
    for f in forms:
        for ctx in ("guard", "invariant"):
            text = G.render_min(tree(f, rng), rng, True, rng.random() < 0.2)
            items.append((f, ctx, text))
    vs = accept.verdicts([model(ctx, text) for _, ctx, text in items], tag="c10")
    # atoms accepted alone per context
    atom_ok = {}
    for (f, ctx, text), v in zip(items, vs):
        if f[0] == "leaf" and v["accepted"] is not None:
            atom_ok[(ctx, repr(f[2]))] = v["accepted"]
    missing = [(ctx, l) for f, ctx, _ in items for l in leaves_of(f) if (ctx, repr(l[2])) not in atom_ok]
    if missing:
        uniq = {}
        for ctx, l in missing:
            uniq[(ctx, repr(l[2]))] = (ctx, l)
        keys = list(uniq)
        vv = accept.verdicts([model(uniq[k][0], G.render_min(uniq[k][1][2])) for k in keys], tag="c10a")
        for k, v in zip(keys, vv):
            atom_ok[k] = v["accepted"]
    seen = {"accepted": 0, "rejected": 0}
    for (f, ctx, text), v in zip(items, vs):
        if v["crash"] is not None:
            rep.crash(v["crash"], v["case"])
            rep.observe(None)
            continue
        cls = classify(f)
        rep.observe((ctx, shape(f)) if f[0] != "leaf" else None)
        seen["accepted" if v["accepted"] else "rejected"] += 1
        if cls == "NONCONVEX" and v["accepted"]:
            rep.violation("C10:nonconvex-accepted:%s:%s" % (ctx, shape(f) if len(shape(f)) < 60 else shape(f)[:60]),
                          "non-convex %s %r accepted without diagnostic" % (ctx, text), v["case"])
        if is_plain_conjunction(f) and not v["accepted"] and all(atom_ok.get((ctx, repr(l[2]))) for l in leaves_of(f)):
            rep.violation("C10:conjunction-rejected:%s:%s" % (ctx, "&".join(sorted(set(l[1] for l in leaves_of(f))))),
                          "plain conjunction of individually accepted atoms rejected as %s: %r -> %s" % (ctx, text, v["errors"][:2]), v["case"])
    rep.sample({"context": items[40][1], "formula": items[40][2], "reference_class": classify(items[40][0])})
    rep.rule = ("boolean formula trees over leaves {integer predicate, clock upper/lower bound, difference bound, clock "
                "equality} and connectives && || ! imply xor == != forall exists: exhaustive to depth 2, sampled to depth "
                "4, plus plain conjunctions; each placed as guard and as invariant; reference classifier decides which "
                "must be rejected; non-trivial = formula with at least one connective; distinct = (context, shape)")
    rep.extra["verdicts_seen"] = seen


def replay(data):
    from ..runner import Case, run_cases
    import json
    c = Case.from_json(data["case"])
    print(json.dumps(run_cases([c])[c.id], indent=1)[:6000])
