"""C04 - the document built from an XML model mirrors the XML's structure exactly.

Oracle: the abstract model the XML was rendered from (vp/gen_model.py)."""
import random

from .. import gen_model as GM
from ..runner import Case, Step, run_cases


def shape_key(m):
    return (len(m["templates"]), sum(len(t["locations"]) for t in m["templates"]),
            sum(len(t["edges"]) for t in m["templates"]), len(m["insts"]), len(m["system"]))


def run(rep, tier, seed):
    rng = random.Random(seed * 1000003 + 4)
    quick = tier == "quick"
    n = 5000 if quick else 30000
    mg_small = GM.ModelGen(rng, 3, 5, 8)
    mg_big = GM.ModelGen(rng, 6, 14, 40)
    items = []
    for i in range(n):
        mg = mg_big if (not quick and i % 3 == 0) or (quick and i % 10 == 0) else mg_small
        m = mg.model(dynamic=True, kwnames=True, rich_edges=True)
        xml = GM.render_xml(m, rng, gui=rng.random() < 0.7, cdata=rng.choice([False, "whole", "mixed"]), empty_elems=rng.random() < 0.4, extras=rng.random() < 0.5)
        entry = rng.choice(["xml_buffer", "xml_buffer", "xml_file", "xml_fd"])
        c = Case("m%d" % i, [Step("parse_builder", 0, "xml_buffer", 1, "doc", 1, xml),
                             Step("parse_doc", 1, entry, 1, 1, xml)], timeout=60)
        items.append((m, c))
    res = run_cases([c for _, c in items])
    stats = {"edges": 0, "locations": 0, "templates": 0, "processes": 0, "instantiations": 0, "branchpoint_edges": 0,
             "selects": 0, "labels": 0, "dynamic_templates": 0, "cdata_sections": 0, "keyword_location_names": 0}
    for m, c in items:
        r = res[c.id]
        if r["status"] != "ok":
            rep.crash(r, c)
            rep.observe(None)
            continue
        sb, sd = r["steps"][0], r["steps"][1]
        exp = GM.expected(m)
        nontrivial = sum(len(t["edges"]) for t in m["templates"]) >= 1
        rep.observe(("model", c.steps[0].args[5]) if nontrivial else None)
        stats["cdata_sections"] += c.steps[0].args[5].count(b"<![CDATA[")
        for t in m["templates"]:
            stats["templates"] += 1
            stats["dynamic_templates"] += 1 if t.get("dynamic") else 0
            stats["keyword_location_names"] += sum(1 for l in t["locations"] if l.get("name") in GM.ModelGen.KW_LOCATION_NAMES)
            stats["locations"] += len(t["locations"])
            stats["edges"] += len(t["edges"])
            for e in t["edges"]:
                stats["branchpoint_edges"] += (e["src"] in t["branchpoints"]) + (e["dst"] in t["branchpoints"])
                stats["selects"] += len(e["select"])
                stats["labels"] += sum(1 for k in ("guard", "sync", "prob") if e.get(k) is not None) + (1 if e["assign"] else 0)
        stats["processes"] += sum(len(g) for g in m["system"])
        stats["instantiations"] += len(m["insts"])
        # builder level: exact mirror
        if sb.get("exc") or sb["errors"]:
            rep.violation("C04:builder-rejects-valid-model:%s" % (sb.get("exc") or sb["errors"][0]["msg"]),
                          "generated model rejected at builder level: %s %s" % (sb.get("exc"), sb["errors"][:2]), c)
        else:
            for k, msg in GM.compare(exp, sb["doc"], analysed=False)[:4]:
                rep.violation("C04:" + k, "[builder level] " + msg, c)
        # Document entry point: accepted, and the same structure after static analysis
        if sd.get("exc") or sd["errors"]:
            rep.violation("C04:valid-model-rejected:%s" % (sd.get("exc") or sd["errors"][0]["msg"]),
                          "generated model rejected by %s: %s %s" % (c.steps[1].args[1], sd.get("exc"), sd["errors"][:2]), c)
        else:
            for k, msg in GM.compare(exp, sd["doc"], analysed=True)[:4]:
                rep.violation("C04:" + k + "(analysed)", "[after static analysis, %s] %s" % (c.steps[1].args[1], msg), c)
    rep.sample({"xml": items[0][1].steps[0].args[5].decode()[:1500]})
    rep.rule = ("random accepted models (globals, 1..6 templates with value/reference parameters, named and anonymous "
                "locations, invariant/rate labels in either order, urgent/committed, branchpoints with weighted edges, "
                "selects, guards, syncs on plain/array/broadcast/urgent channels, updates, controllable flags, full and "
                "partial instantiations, priorities) rendered to XML with shuffled label order and random ids; compared "
                "field by field with the document at builder level (exact) and after static analysis; non-trivial = "
                "model has at least one edge; distinct = distinct XML texts")
    rep.extra["objects_compared"] = stats


def replay(data):
    import json
    c = Case.from_json(data["case"])
    r = run_cases([c])[c.id]
    print(json.dumps(r, indent=1)[:10000])
