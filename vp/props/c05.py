"""C05 - XML and XTA renderings of the same model yield equivalent documents.

Oracle: differential (each front end against the other), with the abstract model as referee."""
import copy
import random

from .. import deepdiff, gen_model as GM, gen_expr as G
from ..runner import Case, Step, run_cases


def canon(doc):
    d = copy.deepcopy(doc)
    for t in d["templates"]:
        for e in t["edges"]:
            e.pop("actname", None)      # XML-only attribute (no XTA syntax)
    d.pop("queries", None)              # queries live in the XML file only
    d.pop("options", None)
    return d


def msgs(step):
    return sorted((e["msg"], e["ctx"]) for e in step["errors"]), sorted((e["msg"], e["ctx"]) for e in step["warnings"])


def inject_error(m, rng):
    """One semantic error expressible in both formats; returns a description or None."""
    cands = []
    for ti, t in enumerate(m["templates"]):
        for ei, e in enumerate(t["edges"]):
            if e.get("guard") is not None:
                cands.append(("guard", ti, ei))
            if e.get("assign"):
                cands.append(("assign", ti, ei))
        for li, l in enumerate(t["locations"]):
            if l.get("inv") is not None:
                cands.append(("inv", ti, li))
    if rng.random() < 0.12 or not cands:
        # a location that is urgent and committed at once: <urgent/><committed/> in XML, named in both lists in XTA
        t = rng.choice(m["templates"])
        l = rng.choice(t["locations"])
        l["flag"] = "urgent"
        l["both_flags"] = True
        return "location/both-flags"
    if rng.random() < 0.15:
        # a location whose name is already taken, carrying labels of its own, in front of other locations: both
        # readers report the duplicate and go on; what follows must not be affected
        t = rng.choice(m["templates"])
        # (the name of an urgent or committed location is not reused: the plain-text format names the flagged locations
        # after all of them are declared, the XML format flags each location as it is read, so that for a name declared
        # twice the two formats legitimately flag different declarations)
        named = [l for l in t["locations"] if l.get("name") and not l.get("flag") and not l.get("both_flags")]
        if named and len(t["locations"]) >= 2:
            src = rng.choice(named)
            dup = {"id": "id9%d" % rng.randint(100, 999), "name": src["name"],
                   "inv": ("bin", "LE", ("id", "gx0"), ("int", rng.randint(1, 9))), "flag": None}
            if rng.random() < 0.5:
                dup["rate"] = ("int", rng.randint(1, 9))
            t["locations"].insert(rng.randint(1, len(t["locations"]) - 1), dup)
            return "location/duplicate-name"
    kind, ti, i = rng.choice(cands)
    t = m["templates"][ti]
    what = rng.choice(["undeclared", "type", "disjunction"])
    bad = {"undeclared": ("bin", "GT", ("id", "nosuchvar"), ("int", 1)),
           "type": ("bin", "PLUS", ("id", "gx0"), ("id", "gx0")),
           "disjunction": ("bin", "OR", ("bin", "LT", ("id", "gx0"), ("int", 3)), ("bin", "GT", ("id", "gx0"), ("int", 5)))}[what]
    if kind == "guard":
        t["edges"][i]["guard"] = ("bin", "AND", t["edges"][i]["guard"], bad)
    elif kind == "assign":
        t["edges"][i]["assign"].append(("assign", "ASSIGN", ("id", "nosuchvar" if what == "undeclared" else "N"), ("int", 1)))
    else:
        t["locations"][i]["inv"] = ("bin", "AND", t["locations"][i]["inv"], bad)
    return "%s/%s" % (kind, what)


def old_syntax_pair(rng):
    """A random model of the 3.x syntax (newxta = false) as XML and as XTA: ';'-separated parameters, 'const K 3;',
    ','-conjunctions in guards and invariants, ':=' assignments, instantiations with ':='.  The XML rendering puts the
    instantiations either into the <instantiation> element or in front of the system line."""
    from ..xmlgen import esc, HEADER
    r = rng
    consts = ["K%d" % i for i in range(r.randint(1, 2))]
    ints = ["n%d" % i for i in range(r.randint(1, 3))]
    clocks = ["x%d" % i for i in range(r.randint(1, 2))]
    chans = ["c%d" % i for i in range(r.randint(1, 2))]
    gdecl = "clock %s; int %s; %schan %s; %s" % (", ".join(clocks), ", ".join(ints), r.choice(["", "", "urgent ", "broadcast "]),
                                               ", ".join(chans), " ".join("const %s %d;" % (k, r.randint(1, 9)) for k in consts))
    if r.random() < 0.3:
        gdecl += " int[0,%d] bnd;" % r.randint(2, 7)
        ints.append("bnd")
    templates = []
    for ti in range(r.randint(1, 2)):
        name = "T%d" % ti
        params = []
        tints, tclocks = list(ints), list(clocks)
        if r.random() < 0.6:
            params.append("const lo")
            if r.random() < 0.5:
                params.append("int hi")
                tints.append("hi")
        ldecl = "clock y; int k;" if r.random() < 0.7 else "clock y;"
        tclocks.append("y")
        if "int k" in ldecl:
            tints.append("k")
        names = ["a", "b", "cc", "d"][:r.randint(1, 4)]
        locs = []
        for ln in names:
            inv = None
            if r.random() < 0.4:
                inv = ", ".join("%s <= %s" % (r.choice(tclocks), r.choice(consts + [str(r.randint(1, 9))])) for _ in range(r.randint(1, 2)))
            locs.append((ln, inv, r.choice([None, None, None, "urgent", "committed"])))
        edges = []
        for _ in range(r.randint(0, 5)):
            labs = {}
            if r.random() < 0.5:
                atoms = []
                for _ in range(r.randint(1, 2)):
                    if r.random() < 0.5:
                        atoms.append("%s %s %s" % (r.choice(tclocks), r.choice([">=", "<", "<=", ">", "=="]), r.choice(consts + ["lo"] if "const lo" in params else consts)))
                    else:
                        atoms.append("%s %s %d" % (r.choice(tints), r.choice(["==", "<", ">", "!="]), r.randint(0, 5)))
                labs["guard"] = ", ".join(atoms)
            if r.random() < 0.35:
                labs["sync"] = r.choice(chans) + r.choice("!?")
                if "urgent" in gdecl or "broadcast" in gdecl:
                    labs.pop("guard", None)
            if r.random() < 0.6:
                labs["assign"] = ", ".join(r.choice(["%s := %d" % (r.choice(tints), r.randint(0, 3)), "%s := 0" % r.choice(tclocks),
                                                     "%s := %s + 1" % (r.choice(tints), r.choice(tints))]) for _ in range(r.randint(1, 3)))
            edges.append((r.choice(names), r.choice(names), labs))
        templates.append({"name": name, "params": params, "ldecl": ldecl, "locs": locs, "init": r.choice(names), "edges": edges})
    insts, procs = [], []
    for t in templates:
        for k in range(r.randint(1, 2)):
            if t["params"]:
                pn = "P%s_%d" % (t["name"], k)
                args = [str(r.randint(0, 4))] + ([r.choice(ints)] if len(t["params"]) > 1 else [])
                insts.append("%s := %s(%s);" % (pn, t["name"], ", ".join(args)))
                procs.append(pn)
            elif k == 0:
                procs.append(t["name"])
    sysline = "system %s;" % ", ".join(procs)
    # ---- XML
    o = [HEADER, "<nta>\n<declaration>", esc(gdecl), "</declaration>\n"]
    for t in templates:
        o.append("<template><name>%s</name>" % t["name"])
        if t["params"]:
            o.append("<parameter>%s</parameter>" % esc("; ".join(t["params"])))
        o.append("<declaration>%s</declaration>" % esc(t["ldecl"]))
        for i, (ln, inv, flag) in enumerate(t["locs"]):
            o.append('<location id="%s_%d"><name>%s</name>%s%s</location>' % (t["name"], i, ln, '<label kind="invariant">%s</label>' % esc(inv) if inv else "",
                                                                               "<%s/>" % flag if flag else ""))
        idx = {ln: "%s_%d" % (t["name"], i) for i, (ln, _, _) in enumerate(t["locs"])}
        o.append('<init ref="%s"/>' % idx[t["init"]])
        for src, dst, labs in t["edges"]:
            o.append('<transition><source ref="%s"/><target ref="%s"/>' % (idx[src], idx[dst]))
            for k, kind in (("guard", "guard"), ("sync", "synchronisation"), ("assign", "assignment")):
                if k in labs:
                    o.append('<label kind="%s">%s</label>' % (kind, esc(labs[k])))
            o.append("</transition>")
        o.append("</template>\n")
    if insts and r.random() < 0.6:
        o.append("<instantiation>%s</instantiation>\n<system>%s</system>\n" % (esc("\n".join(insts)), esc(sysline)))
    else:
        o.append("<system>%s</system>\n" % esc("\n".join(insts + [sysline])))
    o.append("</nta>\n")
    # ---- XTA
    x = [gdecl, "\n"]
    for t in templates:
        x.append("process %s%s {\n%s\n" % (t["name"], "(%s)" % "; ".join(t["params"]) if t["params"] else "", t["ldecl"]))
        x.append("state " + ", ".join(ln + (" { %s }" % inv if inv else "") for ln, inv, _ in t["locs"]) + ";\n")
        com = [ln for ln, _, f in t["locs"] if f == "committed"]
        urg = [ln for ln, _, f in t["locs"] if f == "urgent"]
        if com:
            x.append("commit %s;\n" % ", ".join(com))
        if urg:
            x.append("urgent %s;\n" % ", ".join(urg))
        x.append("init %s;\n" % t["init"])
        if t["edges"]:
            es = []
            for src, dst, labs in t["edges"]:
                body = "".join(" %s %s;" % (k, labs[k]) for k in ("guard", "sync", "assign") if k in labs)
                es.append("  %s -> %s {%s }" % (src, dst, body))
            x.append("trans\n" + ",\n".join(es) + ";\n")
        x.append("}\n")
    x.append("\n".join(insts + [sysline]) + "\n")
    return "".join(o), "".join(x)


def run(rep, tier, seed):
    rng = random.Random(seed * 1000003 + 5)
    quick = tier == "quick"
    n = 3500 if quick else 25000
    mg_small = GM.ModelGen(rng, 3, 5, 8)
    mg_big = GM.ModelGen(rng, 6, 14, 40)
    items = []
    for i in range(n):
        mg = mg_big if i % 8 == 0 else mg_small
        m = mg.model()
        faulty = None
        if rng.random() < 0.25:
            faulty = inject_error(m, rng)
        xml = GM.render_xml(m, rng, cdata=rng.choice([False, False, "whole"]), empty_elems=rng.random() < 0.3)
        xta = GM.render_xta(m, rng)
        if rng.random() < 0.15:
            xta = xta.replace("\n", "\r\n")           # CRLF is a legal line end in plain-text input
        c = Case("p%d" % i, [Step("parse_doc", 0, "xml_buffer", 1, 1, xml),
                             Step("parse_doc", 1, rng.choice(["xta_buffer", "xta_file"]), 1, 1, xta)], timeout=60)
        items.append((m, c, faulty))
    # the 3.x syntax switch
    n_old = 1000 if quick else 6000
    for i in range(n_old):
        xml, xta = old_syntax_pair(rng)
        c = Case("o%d" % i, [Step("parse_doc", 0, rng.choice(["xml_buffer", "xml_file"]), 0, 1, xml),
                             Step("parse_doc", 1, rng.choice(["xta_buffer", "xta_file"]), 0, 1, xta)], timeout=60)
        items.append(({"templates": [{"edges": [1]}], "old": True}, c, "old-syntax"))
    res = run_cases([c for _, c, _ in items])
    n_rej = 0
    for m, c, faulty in items:
        r = res[c.id]
        if r["status"] != "ok":
            rep.crash(r, c)
            rep.observe(None)
            continue
        sx, st = r["steps"][0], r["steps"][1]
        rep.observe(("pair", c.steps[0].args[4]) if sum(len(t["edges"]) for t in m["templates"]) else None)
        if (sx.get("exc") is None) != (st.get("exc") is None):
            rep.violation("C05:exception-in-one-format", "XML: %s, XTA: %s" % (sx.get("exc"), st.get("exc")), c)
            continue
        ex, wx = msgs(sx)
        et, wt = msgs(st)
        if ex or et:
            n_rej += 1
        if ex != et:
            rep.violation("C05:diagnostics-differ:%s" % (faulty if faulty == "old-syntax" else ("injected-" + faulty if faulty else "accepted-model")),
                          "error messages differ: XML %s, XTA %s" % (ex[:4], et[:4]), c)
            continue
        if wx != wt:
            rep.violation("C05:warnings-differ", "warnings differ: XML %s, XTA %s" % (wx[:4], wt[:4]), c)
        if sx["methods"] != st["methods"]:
            rep.violation("C05:supported-methods-differ", "XML %s, XTA %s" % (sx["methods"], st["methods"]), c)
        d = deepdiff.first_diff(canon(sx["doc"]), canon(st["doc"]))
        if d:
            rep.violation("C05:document-differs:%s" % d[0], "at %s: XML has %r, XTA has %r" % (d[0], d[1], d[2]), c)
        if m.get("old"):
            rep.extra["old_syntax_pairs"] = rep.extra.get("old_syntax_pairs", 0) + 1
            if not ex:
                rep.extra["old_syntax_pairs_accepted"] = rep.extra.get("old_syntax_pairs_accepted", 0) + 1
        if not faulty and not ex:
            # referee: the XTA document against the abstract model as well
            for k, msg in GM.compare(GM.expected(m), st["doc"], analysed=True)[:3]:
                rep.violation("C05:xta:" + k, "[XTA front end vs abstract model] " + msg, c)
    rep.sample({"xta": items[0][1].steps[1].args[4].decode()[:1500]})
    rep.rule = ("random models in the common subset rendered to XML and to XTA (chained transitions, -u-> edges, "
                "{inv ; rate} forms, commit/urgent lists in either order, CRLF), a quarter of them with one injected "
                "semantic error; canonical documents, message multisets and supported-method verdicts compared; "
                "non-trivial = model has edges; distinct = distinct XML texts")
    rep.extra["pairs_with_diagnostics"] = n_rej


def replay(data):
    import json
    c = Case.from_json(data["case"])
    r = run_cases([c])[c.id]
    print(json.dumps(r, indent=1)[:10000])
