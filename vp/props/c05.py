"""C05 - XML and XTA renderings of the same model yield equivalent documents.

Oracle: differential (each front end against the other), with the abstract model as referee."""
import copy
import random

from .. import deepdiff, gen_model as GM, gen_expr as G
from ..runner import Case, Step, run_cases


def canon(doc):
    d = copy.deepcopy(doc)
    for t in d["templates"]:
        for e in t["edges"]:
            e.pop("actname", None)      # XML-only attribute (no XTA syntax)
    d.pop("queries", None)              # queries live in the XML file only
    d.pop("options", None)
    return d


def msgs(step):
    return sorted((e["msg"], e["ctx"]) for e in step["errors"]), sorted((e["msg"], e["ctx"]) for e in step["warnings"])


def inject_error(m, rng):
    """One semantic error expressible in both formats; returns a description or None."""
    cands = []
    for ti, t in enumerate(m["templates"]):
        for ei, e in enumerate(t["edges"]):
            if e.get("guard") is not None:
                cands.append(("guard", ti, ei))
            if e.get("assign"):
                cands.append(("assign", ti, ei))
        for li, l in enumerate(t["locations"]):
            if l.get("inv") is not None:
                cands.append(("inv", ti, li))
    if not cands:
        return None
    kind, ti, i = rng.choice(cands)
    t = m["templates"][ti]
    what = rng.choice(["undeclared", "type", "disjunction"])
    bad = {"undeclared": ("bin", "GT", ("id", "nosuchvar"), ("int", 1)),
           "type": ("bin", "PLUS", ("id", "gx0"), ("id", "gx0")),
           "disjunction": ("bin", "OR", ("bin", "LT", ("id", "gx0"), ("int", 3)), ("bin", "GT", ("id", "gx0"), ("int", 5)))}[what]
    if kind == "guard":
        t["edges"][i]["guard"] = ("bin", "AND", t["edges"][i]["guard"], bad)
    elif kind == "assign":
        t["edges"][i]["assign"].append(("assign", "ASSIGN", ("id", "nosuchvar" if what == "undeclared" else "N"), ("int", 1)))
    else:
        t["locations"][i]["inv"] = ("bin", "AND", t["locations"][i]["inv"], bad)
    return "%s/%s" % (kind, what)


def run(rep, tier, seed):
    rng = random.Random(seed * 1000003 + 5)
    quick = tier == "quick"
    n = 1200 if quick else 25000
    mg_small = GM.ModelGen(rng, 3, 5, 8)
    mg_big = GM.ModelGen(rng, 6, 14, 40)
    items = []
    for i in range(n):
        mg = mg_big if i % 8 == 0 else mg_small
        m = mg.model()
        faulty = None
        if rng.random() < 0.25:
            faulty = inject_error(m, rng)
        xml = GM.render_xml(m, rng)
        xta = GM.render_xta(m, rng)
        if rng.random() < 0.15:
            xta = xta.replace("\n", "\r\n")           # CRLF is a legal line end in plain-text input
        c = Case("p%d" % i, [Step("parse_doc", 0, "xml_buffer", 1, 1, xml),
                             Step("parse_doc", 1, rng.choice(["xta_buffer", "xta_file"]), 1, 1, xta)], timeout=60)
        items.append((m, c, faulty))
    res = run_cases([c for _, c, _ in items])
    n_rej = 0
    for m, c, faulty in items:
        r = res[c.id]
        if r["status"] != "ok":
            rep.crash(r, c)
            rep.observe(None)
            continue
        sx, st = r["steps"][0], r["steps"][1]
        rep.observe(("pair", c.steps[0].args[4]) if sum(len(t["edges"]) for t in m["templates"]) else None)
        if (sx.get("exc") is None) != (st.get("exc") is None):
            rep.violation("C05:exception-in-one-format", "XML: %s, XTA: %s" % (sx.get("exc"), st.get("exc")), c)
            continue
        ex, wx = msgs(sx)
        et, wt = msgs(st)
        if ex or et:
            n_rej += 1
        if ex != et:
            rep.violation("C05:diagnostics-differ:%s" % ("injected-" + faulty if faulty else "accepted-model"),
                          "error messages differ: XML %s, XTA %s" % (ex[:4], et[:4]), c)
            continue
        if wx != wt:
            rep.violation("C05:warnings-differ", "warnings differ: XML %s, XTA %s" % (wx[:4], wt[:4]), c)
        if sx["methods"] != st["methods"]:
            rep.violation("C05:supported-methods-differ", "XML %s, XTA %s" % (sx["methods"], st["methods"]), c)
        d = deepdiff.first_diff(canon(sx["doc"]), canon(st["doc"]))
        if d:
            rep.violation("C05:document-differs:%s" % d[0], "at %s: XML has %r, XTA has %r" % (d[0], d[1], d[2]), c)
        if not faulty and not ex:
            # referee: the XTA document against the abstract model as well
            for k, msg in GM.compare(GM.expected(m), st["doc"], analysed=True)[:3]:
                rep.violation("C05:xta:" + k, "[XTA front end vs abstract model] " + msg, c)
    rep.sample({"xta": items[0][1].steps[1].args[4].decode()[:1500]})
    rep.rule = ("random models in the common subset rendered to XML and to XTA (chained transitions, -u-> edges, "
                "{inv ; rate} forms, commit/urgent lists in either order, CRLF), a quarter of them with one injected "
                "semantic error; canonical documents, message multisets and supported-method verdicts compared; "
                "non-trivial = model has edges; distinct = distinct XML texts")
    rep.extra["pairs_with_diagnostics"] = n_rej


def replay(data):
    import json
    c = Case.from_json(data["case"])
    r = run_cases([c])[c.id]
    print(json.dumps(r, indent=1)[:10000])
