"""C01 - no input crashes, corrupts memory or hangs any parsing entry point.

Oracle: exit status and sanitizer / assertion report of the instrumented child, plus a deterministic step budget
(logical clock) for the time and termination clauses."""
import os
import random
import re
import subprocess

from .. import build, faults, gen_expr as G, gen_model as GM, queries as Q, workloads, xmlgen, fuzz
from ..runner import Case, Step, run_cases, crash_kind, crash_site

DECL_SNIPPETS = [
    "int a; int b = 2; const int C = 3; bool f = true; clock x; chan c; broadcast chan bc; urgent chan uc;",
    "typedef int[0,5] small_t; small_t s1 = 2; typedef struct { int a; bool b; double d; } rec_t; rec_t r = { 1, true, 0.5 };",
    "int arr[3] = { 1, 2, 3 }; int m[2][2] = { { 1, 2 }, { 3, 4 } }; typedef scalar[3] sc_t; sc_t v;",
    "int f(int p) { return p + 1; } void g(int &r, const int k) { r = k; } int h() { int l = 2; { int l2 = l; l = l2 + 1; } return l; }",
    "int loop(int n) { int i; int s = 0; for (i = 0; i < n; i++) { s += i; } while (s > 10) { s = s - 1; } do { s++; } while (s < 3); return s; }",
    "int it() { int s = 0; for (q : int[0,3]) { s += q; } if (s > 2) { return 1; } else if (s == 0) return 2; else { return 3; } }",
    "bool q() { return forall (i : int[0,2]) exists (j : int[0,1]) i >= j && (sum (k : int[0,1]) k) < 5; }",
    "meta int mi; hybrid clock hc; double dd = 1.5; const double PI2 = 6.28; string sname = \"abc\";",
    "int[0,1] flag; chan cc[3]; int w = 1 ? 2 : 3; int z = (1 + 2) * 3 - 4 / 2 % 2 << 1 >> 1 & 7 | 1 ^ 2;",
    "void as() { assert(1 > 0); } int cm(int a) { return a > 0 ? a : -a; }",
    "progress { 1; }", "chan priority c < default < bc;", "int a; int a;", "typedef struct { int a; } s_t; s_t sv; int sa = sv.a;",
    "import \"libfoo.so\" { int ext(int a); };", "const int N = 4; int[0,N-1] idx; bool tab[N] = { true, false, true, false };",
    "void sw(int v) { }", "gantt { G(i:int[0,1]): true -> i; }", "dynamic Dt(int p); void sp() { spawn Dt(1); }",
    "before_update { a = 1 } after_update { a = 2 }",
    "void ex() { exit(); }", "dynamic Dt(int p); void sp2() { int n = numOf(Dt); spawn Dt(n); exit(); }",
    "int nested() { return forall (i : int[0,1]) exists (j : int[0,1]) (sum (k : int[0,1]) k) > i + j; }",
    "clock cx; void resetc() { cx = 0; } double dd2 = fabs(-1.5) + pow(2.0, 3) + random(3);",
    "typedef int[0,3] id_t; chan cc2[id_t]; int[0,1] mat[id_t][2]; void arrf(int &a[2], const int b[id_t]) { a[0] = b[1]; }",
    # field types that are not allowed in structures, alone and next to valid fields, nested, as typedef and as variable
    "struct { chan c; } s1;", "typedef struct { int a; void v; } T1; T1 t1;", "struct { int a; struct { chan c; int b; } in; int z; } s2;",
    "typedef struct { const string s; int k; } T2;", "struct { clock x; chan c; int n; } s3; struct { int n; } s4;",
    "typedef struct { int a; } In; struct { In i; void v; In j[2]; } s5;", "void f() { struct { chan c; } l; }",
    "meta struct { int a; clock x; } ms;", "struct { int a[2]; broadcast chan b[2]; } s6 = { { 1, 2 } };", "struct { } e0;", "typedef struct { scalar[2] s; int i; } T3; T3 t3;",
]
OLD_DECL = ["int a; const N 3; chan c; clock x;", "int a[3]; int b := 2; urgent chan u;"]
PARAMS = ["int a", "const int a, int &b", "clock &x, chan &c, bool b", "int[0,3] k, broadcast chan &bc", "", "int a[2], const int[0,N] q",
          "double d, const double e"]
LABELS = {
    "S_INVARIANT": ["x <= 5", "x <= 5 && y < N", "x' == 2 && x <= 3", "i < 3", "forall (q:int[0,1]) x <= q", "true"],
    "S_GUARD": ["x >= 2", "x >= 2 && i == 1", "i < j || b", "x - y < 3", "forall (q:int[0,2]) a[q] > 0", "f1(i) > 2 && !b"],
    "S_SYNC": ["c!", "c?", "ca[i]!", "ca[0]?", "c"],
    "S_ASSIGN": ["i = 1", "i = 1, j = i + 2, x = 0", "i++, --j", "a[i] = f1(j)", "b = i > 2 ? true : false", "s.f += 2"],
    "S_SELECT": ["i : int[0,3]", "i : int[0,3], j : int[0,1]", "q : id_t", "k : int[0,N]"],
    "S_PROBABILITY": ["1", "i + 1", "3.5", "N * 2"],
    "S_EXPONENTIAL_RATE": ["2", "1 : 3", "i + 1", "0.5"],
    "S_EXPRESSION": ["i + j * 2", "a[1] > a[0] ? s.f : t.n", "f2(i, j)", "exists (q:int[0,2]) a[q] == i", "x'", "deadlock"],
    "S_EXPRESSION_LIST": ["i, j, k", "i = 1, j = 2", "f0(), f1(2)"],
    "S_INSTANCE_LINE": ["P", "P(1)", "Q(i, 2)", "inst"],
    "S_MESSAGE": ["c", "ca[1]", "m"],
    "S_UPDATE": ["i = 1", "i = 1, x = 0"],
    "S_CONDITION": ["i > 1", "x < 3 && b"],
}
SYSTEMS = ["system P;", "P1 = P(); P2 = P(); system P1, P2;", "P1 = P(); system P1 < P2;", "Q(const int k) = P(); system Q;",
           "int sysv = 1; P1 = P(); system P1; progress { sysv; }", "system P; gantt { G: true -> 1; }",
           "IO P1 { c! } system P1;", "chan priority c < default; system P;"]
INSTS = ["P1 = P();", "P1 = P(); P2 = P();", "Q(const int k) = P();", "int lv = 2; P1 = P();"]
PRELUDE_MODEL = xmlgen.simple_model(decl=G.PRELUDE + "chan c; chan ca[2]; const int M = 2;")


def part_cases(rng, n):
    """Direct parse_XTA(text, builder, newxta, part, "") calls with builders that need no surrounding context."""
    mg = GM.ModelGen(rng, 2, 4, 6)
    tg = G.TypedGen(rng)
    out = []
    for i in range(n):
        r = rng.random()
        if r < 0.22:
            part = rng.choice(["S_DECLARATION", "S_LOCAL_DECL"])
            text = rng.choice(DECL_SNIPPETS) if rng.random() < 0.8 else GM.decls_text(mg.model()["gdecl"])
            builders = ["doc", "pretty"]
        elif r < 0.27:
            part, text, builders = "S_PARAMETERS", rng.choice(PARAMS), ["doc", "pretty"]
        elif r < 0.55:
            part = rng.choice(list(LABELS))
            text = rng.choice(LABELS[part]) if rng.random() < 0.6 else G.render_min(tg.any(rng.choice([1, 2, 3])), rng)
            builders = ["pretty", "expr", "tiga"] if part in ("S_EXPRESSION", "S_EXPRESSION_LIST") else ["pretty", "expr"]
        elif r < 0.63:
            part, text, builders = rng.choice([("S_SYSTEM", rng.choice(SYSTEMS)), ("S_INST", rng.choice(INSTS))]) + (["doc", "pretty"],)
        elif r < 0.78:
            m = mg.model(priorities=False)
            xta = GM.render_xta(m, rng)
            if rng.random() < 0.5:
                part, text = "S_XTA", xta
            else:
                procs = re.findall(r"process .*?\n}\n", xta, re.S)
                part, text = "S_XTA_PROCESS", (rng.choice(procs) if procs else xta)
            builders = ["doc", "pretty"]
        else:
            part = "S_PROPERTY"
            text = rng.choice(Q.catalogue(rng, 60))[1]
            builders = ["tiga", "pretty"]
        nf = rng.choice([0, 1, 1, 1, 2, 3])
        if nf:
            text, _ = faults.token_faults(text, rng, nf)
        builder = rng.choice(builders)
        newxta = 0 if (rng.random() < 0.12 and part not in ("S_PROPERTY",)) else 1
        if newxta == 0 and part in ("S_DECLARATION",) and rng.random() < 0.5:
            text = rng.choice(OLD_DECL)
        steps = []
        if builder in ("doc", "tiga", "expr") and part not in ("S_XTA", "S_XTA_PROCESS", "S_DECLARATION"):
            steps.append(Step("parse_doc", 0, "xml_buffer", 1, 0, Q.MODEL if part == "S_PROPERTY" else PRELUDE_MODEL))
        steps.append(Step("part", 0, newxta, part, builder, text))
        out.append(("part:%s/%s" % (part, builder), Case("p%d" % i, steps, timeout=30)))
    return out


def query_cases(rng, n):
    out = []
    cat = Q.catalogue(rng, n)
    for i, (form, text) in enumerate(cat):
        nf = rng.choice([0, 0, 1, 1, 2])
        if nf:
            text, _ = faults.token_faults(text, rng, nf)
        if rng.random() < 0.06:
            # call sites with the wrong number of arguments / calls of things that are not functions
            text = re.sub(r"f1\([^()]*\)|\bi\b", lambda mm: rng.choice(["f1()", "f1(1, 2)", "f1(i, j, 3)", "i(1)", "P1(1)", "a(1)", "f1(f1())",
                                                                     "s.f(2)", "f1"]), text, count=1)
            form = form + "+arity"
        model = Q.MODEL
        out.append(("query:" + form, Case("q%d" % i, [Step("parse_doc", 0, "xml_buffer", 1, 0, model),
                                                       Step("query", 0, "w", text)], timeout=30)))
    return out


def model_cases(rng, n):
    out = []
    hm = workloads.hostile_models(rng, n)
    # declaration snippets (functions, dynamic templates, priorities, ...) inside whole models: type checker included
    for j in range(max(20, n // 6)):
        snip = rng.choice(DECL_SNIPPETS)
        if rng.random() < 0.5:
            snip, _ = faults.token_faults(snip, rng, rng.choice([1, 1, 2]))
        if rng.random() < 0.7:
            hm.append(("snippet-global", xmlgen.simple_model(decl=snip)))
        else:
            hm.append(("snippet-local", xmlgen.simple_model(tdecl=snip)))
    hm += workloads.dynamic_models(rng, max(60, n // 8))
    for i, (tag, xml) in enumerate(hm):
        x = rng.random()
        newxta = 1 if rng.random() < 0.9 else 0
        if x < 0.70:
            entry = rng.choice(["xml_buffer", "xml_buffer", "xml_file", "xml_fd"])
            steps = [Step("parse_doc", 0, entry, newxta, 0, xml)]
            out.append((tag, Case("m%d" % i, steps, timeout=30)))
        elif x < 0.85:
            out.append((tag + "/pretty", Case("m%d" % i, [Step("parse_builder", 0, "xml_buffer", newxta, "pretty", 0, xml)], timeout=30)))
        else:
            out.append((tag + "/builder", Case("m%d" % i, [Step("parse_builder", 0, rng.choice(["xml_buffer", "xml_file"]), newxta, "doc", 0, xml)], timeout=30)))
    return out


def dom_cases(rng, quick):
    """Systematic element / attribute faults on rich base documents (all element kinds incl. LSC and queries)."""
    bases = []
    tm = dict(workloads.test_models())
    for name in ("lsc_example.xml", "smc_non-deterministic_input2.xml", "channel_priorities.xml"):
        if name in tm:
            bases.append(tm[name])
    mg = GM.ModelGen(rng, 2, 3, 4)
    for _ in range(2 if quick else 12):
        m = mg.model(branchpoints=True)
        x = GM.render_xml(m, rng)
        if "<queries>" not in x:
            x = x.replace("</nta>", workloads.RICH_QUERIES + "</nta>")
        bases.append(x)
    out = []
    for b in bases:
        for tag, xml in workloads.systematic_dom_faults(b, rng):
            out.append((tag, Case("d%d" % len(out), [Step("parse_doc", 0, rng.choice(["xml_buffer", "xml_buffer", "xml_file", "xml_fd"]), 1, 0, xml)], timeout=30)))
    if quick and len(out) > 2500:
        out = rng.sample(out, 2500)
    return out


XTA_SPECIAL = ["process T() { } system T;", "process T() { state A; init A; } system T;", "system T;", "", ";", "process T { state A; init A; trans A -> A { }; } system T;",
               "process T() { state A { x <= 3 }; init A; } system T;", "int a; process T() { state A, B; commit A; urgent A; init A; } system T;",
               "process T() { state A; branchpoint B; init A; trans A -> B { }, B -> A { probability 1; }; } system T;",
               "process T() { state A; init B; } system T;", "process T() { state A; init A; trans -> A { }; } system T;",
               "chan c; process T() { state A; init A; trans A -> A { sync c!; }, -> A { sync c?; }; } T1 = T(); T2 = T(); system T1 < T2;"]


def xta_cases(rng, n):
    mg = GM.ModelGen(rng, 3, 5, 8)
    out = []
    for i in range(n):
        if rng.random() < 0.1:
            snip = rng.choice(DECL_SNIPPETS) if rng.random() < 0.6 else ""
            xta = snip + "\n" + rng.choice(XTA_SPECIAL)
        else:
            xta = GM.render_xta(mg.model(), rng)
        nf = rng.choice([0, 1, 1, 2, 3])
        if nf:
            xta, _ = faults.token_faults(xta, rng, nf)
        entry = rng.choice(["xta_buffer", "xta_file"])
        out.append(("xta", Case("x%d" % i, [Step("parse_doc", 0, entry, 1 if rng.random() < 0.9 else 0, 0, xta)], timeout=30)))
    return out


# ---- scaling families (logical clock) -----------------------------------------------------------------------
def _chain(op, n):
    return (" %s " % op).join(["v"] * n)


FAMILIES = {
    # name: (function n -> model text, recursive?)   recursive families are expected to overflow the stack eventually
    "left-deep-sum-guard": lambda n: xmlgen.simple_model(decl="int v;", edges=[("id0", "id0", [("guard", _chain("+", n) + " > 0")])]),
    "right-deep-parens": lambda n: xmlgen.simple_model(decl="int v;", edges=[("id0", "id0", [("guard", "(" * n + "v" + ")" * n + " > 0")])]),
    "and-chain-guard": lambda n: xmlgen.simple_model(decl="int v;", edges=[("id0", "id0", [("guard", " && ".join(["v > %d" % i for i in range(n)]))])]),
    "update-list": lambda n: xmlgen.simple_model(decl="int v;", edges=[("id0", "id0", [("assignment", ", ".join(["v = %d" % i for i in range(n)]))])]),
    "many-globals": lambda n: xmlgen.simple_model(decl="\n".join("int v%d = %d;" % (i, i) for i in range(n))),
    "many-locations": lambda n: xmlgen.simple_model(locations=[("id%d" % i, "L%d" % i, [], None) for i in range(n)]),
    "many-edges": lambda n: xmlgen.simple_model(decl="int v;", edges=[("id0", "id0", [("guard", "v > %d" % i)]) for i in range(n)]),
    "many-functions": lambda n: xmlgen.simple_model(decl="\n".join("int f%d(int a) { return a + %d; }" % (i, i) for i in range(n))),
    "function-call-chain": lambda n: xmlgen.simple_model(decl="int f0(int a) { return a; }\n" + "\n".join(
        "int f%d(int a) { return f%d(a) + 1; }" % (i, i - 1) for i in range(1, n))),
    "nested-blocks": lambda n: xmlgen.simple_model(decl="void f() { " + "{ " * n + "int q;" + " }" * n + " }"),
    "nested-inline-if": lambda n: xmlgen.simple_model(decl="int v;", edges=[("id0", "id0", [("assignment", "v = " + "".join("v > %d ? %d : (" % (i, i) for i in range(n)) + "0" + ")" * n)])]),
    "array-dimensions": lambda n: xmlgen.simple_model(decl="int a" + "[1]" * n + ";"),
    "struct-nesting": lambda n: xmlgen.simple_model(decl="typedef struct { int a; } s0;\n" + "\n".join(
        "typedef struct { s%d a; } s%d;" % (i - 1, i) for i in range(1, n)) + "\ns%d var;" % (n - 1)),
    "long-comment": lambda n: xmlgen.simple_model(decl="/* " + "x" * (4 * n) + " */ int v;"),
    "long-identifier-list": lambda n: xmlgen.simple_model(decl="int " + ", ".join("vv%d" % i for i in range(n)) + ";"),
    "many-templates": lambda n: xmlgen.simple_model(extra_templates="".join(
        '<template><name>T%d</name><location id="a%d"/><init ref="a%d"/></template>' % (i, i, i) for i in range(n))),
    "many-queries": lambda n: xmlgen.simple_model(queries=xmlgen.queries_xml(["A[] true"] * n)),
    "many-processes": lambda n: xmlgen.simple_model(system="\n".join("P%d = P();" % i for i in range(n)) + "\nsystem " + ", ".join("P%d" % i for i in range(n)) + ";"),
    "select-list": lambda n: xmlgen.simple_model(edges=[("id0", "id0", [("select", ", ".join("s%d : int[0,1]" % i for i in range(n)))])]),
    "unary-minus-chain": lambda n: xmlgen.simple_model(decl="int v;", edges=[("id0", "id0", [("guard", "- " * n + "v < 0")])]),
    # right-nested chains: one visit per nesting level is linear, a double visit per level is exponential
    "assign-chain-update": lambda n: xmlgen.simple_model(decl="int v;", edges=[("id0", "id0", [("assignment", "v = " * _depth(n) + "1")])]),
    "assign-chain-function": lambda n: xmlgen.simple_model(decl="int v; void f() { " + "v = " * _depth(n) + "1; }"),
    "call-nesting": lambda n: xmlgen.simple_model(decl="int g(int a) { return a; } int v = " + "g(" * _depth(n) + "1" + ")" * _depth(n) + ";"),
    "index-nesting": lambda n: xmlgen.simple_model(decl="int a[2]; int v;", edges=[("id0", "id0", [("guard", "a[" * _depth(n) + "0" + "]" * _depth(n) + " > 0")])]),
    "inline-if-chain": lambda n: xmlgen.simple_model(decl="int v;", edges=[("id0", "id0", [("assignment", "v = " + " ".join("v > %d ? %d :" % (i, i) for i in range(_depth(n))) + " 0")])]),
    "imply-chain-guard": lambda n: xmlgen.simple_model(decl="bool b;", edges=[("id0", "id0", [("guard", " imply ".join(["b"] * min(n, 2000)))])]),
    # internal entities referring to each other (each level ten times the previous one): the reader never asks libxml2 to
    # substitute entities, so the declarations must stay inert
    "entity-nesting": lambda n: _entity_model({125: 4, 250: 5, 500: 6, 1000: 7, 2000: 8}.get(n, 8)),
    "initialiser-list": lambda n: xmlgen.simple_model(decl="int a[%d] = { %s };" % (n, ", ".join(["1"] * n))),
}
def _depth(n):
    """nesting depths the grammar's fixed parser stack still accepts (about 2 stack slots per level)"""
    return {125: 16, 250: 32, 500: 48, 1000: 64, 2000: 80}.get(n, 80)


def _entity_model(levels):
    ents = ['<!ENTITY e0 "int zz; ">']
    for i in range(1, levels):
        ents.append('<!ENTITY e%d "%s">' % (i, ("&e%d;" % (i - 1)) * 10))
    x = xmlgen.simple_model(decl="int v; &e%d;" % (levels - 1)).replace("&amp;e", "&e")
    a = x.index("<!DOCTYPE")
    b = x.index(">", a)
    return x[:a] + "<!DOCTYPE nta [ %s ]" % " ".join(ents) + x[b:]


STEP_FIXED = 2 * 10 ** 9
STEP_PER_BYTE = 50000


def scaling(rep, rng, quick):
    """Growth of the logical clock over doubling input sizes; absolute cap per input."""
    sizes = [125, 250, 500, 1000, 2000] if quick else [125, 250, 500, 1000, 2000, 4000, 8000]
    cases = []
    for name, f in FAMILIES.items():
        for n in sizes:
            if name in ("array-dimensions", "nested-blocks", "nested-inline-if", "right-deep-parens", "struct-nesting",
                        "unary-minus-chain") and n > 1000:
                continue        # bison's parser stack ("memory exhausted") cuts these off earlier anyway
            text = f(n)
            cap = STEP_FIXED + STEP_PER_BYTE * len(text)
            cases.append((name, n, len(text), Case("s_%s_%d" % (name, n), [Step("steps_begin", cap),
                                                                       Step("parse_doc", 0, "xml_buffer", 1, 0, text)], timeout=300)))
    # a large stack so that the growth of recursive walks can be measured; the "recurses without bound" clause is
    # decided separately below with the default 8 MiB stack
    res = run_cases([c for _, _, _, c in cases], variant="steps", chunk_size=1, stack_mb=4096)
    table = {}
    for name, n, size, c in cases:
        r = res[c.id]
        if r["status"] == "exit" and r["code"] == 97:
            rep.violation("C01:step-budget-exceeded:%s" % name, "family %s at n=%d (%d bytes) exceeded the step budget %d" % (
                name, n, size, STEP_FIXED + STEP_PER_BYTE * size), c)
            continue
        if r["status"] != "ok":
            if r["status"] == "timeout":
                rep.inconclusive_case("watchdog in scaling family " + name)
            else:
                rep.crash(r, c)
            continue
        steps = r["steps"][-1].get("steps")
        nerr = len(r["steps"][-1].get("errors", []))
        table.setdefault(name, []).append((n, size, steps, nerr))
        rep.observe(("scale", name, n))
    obs = {}
    for name, rows in table.items():
        rows.sort()
        ratios = []
        for (n1, s1, st1, _), (n2, s2, st2, _) in zip(rows, rows[1:]):
            if n2 == 2 * n1 and st1:
                ratios.append(round(st2 / st1, 2))
        obs[name] = {"n": [r[0] for r in rows], "bytes": [r[1] for r in rows], "steps": [r[2] for r in rows],
                     "errors": [r[3] for r in rows], "doubling_ratios": ratios}
        bad = 0
        for (n1, s1, st1, _), (n2, s2, st2, _) in zip(rows, rows[1:]):
            if n2 == 2 * n1 and st1 > 10 ** 7 and st2 / st1 > 5:
                bad += 1
            else:
                bad = 0
            if bad >= 2:
                rep.violation("C01:superquadratic-growth:%s" % name, "family %s: steps %s for n %s (ratio > 5 on two "
                              "consecutive doublings)" % (name, [r[2] for r in rows], [r[0] for r in rows]))
                break
    rep.extra["scaling_steps"] = obs
    # ---- recursion depth with the default stack (ASan reports stack-overflow with the recursing function)
    rc = []
    for name in ("left-deep-sum-guard", "and-chain-guard", "update-list", "many-globals", "many-edges", "initialiser-list",
                 "function-call-chain", "long-identifier-list", "select-list", "many-processes"):
        for n in ([4000, 40000] if quick else [4000, 40000, 200000]):
            if name == "function-call-chain" and n > 4000:
                continue
            rc.append((name, n, Case("r_%s_%d" % (name, n), [Step("parse_doc", 0, "xml_buffer", 1, 0, FAMILIES[name](n))], timeout=600)))
    rres = run_cases([c for _, _, c in rc], chunk_size=1)
    depth_ok = {}
    for name, n, c in rc:
        r = rres[c.id]
        if r["status"] == "ok":
            depth_ok.setdefault(name, []).append(n)
            rep.observe(("depth", name, n))
        elif r["status"] == "timeout":
            rep.inconclusive_case("watchdog in recursion probe " + name)
        elif "stack-overflow" in r.get("stderr", ""):
            rep.violation("C01:stack-overflow:%s" % name, "family %s at n=%d: stack exhausted by %s (recursion depth grows "
                          "with the input)" % (name, n, crash_site(r["stderr"])), c)
        else:
            rep.crash(r, c)
    rep.extra["recursion_probe_sizes_ok"] = depth_ok


MEMCHECK = ["valgrind", "-q", "--error-exitcode=99", "--track-origins=yes", "--num-callers=16",
            "--log-file={workdir}/vg.%p"]


def selftest(rep):
    """The monitors must be alive: a deliberate use-after-free has to come back as an ASan report and a deliberate
    branch on uninitialised memory as a memcheck report; otherwise nothing this check says can be believed."""
    from ..runner import HarnessFailure
    c = Case("self_uaf", [Step("crash_selftest")])
    r = run_cases([c])[c.id]
    if os.environ.get("VERIF_COV"):
        return
    if crash_kind(r) != "asan:heap-use-after-free":
        raise HarnessFailure("ASan self test did not fire: %s" % (crash_kind(r),))
    c = Case("self_uninit", [Step("uninit_selftest")])
    r = run_cases([c], variant="plain", wrapper=MEMCHECK)[c.id]
    if not (r["status"] == "exit" and r["code"] == 99 and "uninitialised" in r.get("stderr", "")):
        raise HarnessFailure("memcheck self test did not fire: %s %s" % (r["status"], r.get("code")))
    rep.extra["monitor_selftests"] = "ASan use-after-free and memcheck uninitialised-branch self tests fired"


def memcheck_sample(rep, rng, n):
    """A sample of the hostile workloads again under valgrind memcheck on the uninstrumented build: branches on and
    uses of uninitialised values (which ASan/UBSan cannot see) and invalid accesses inside uninstrumented libxml2
    caused by arguments passed from utap."""
    cs = model_cases(rng, n // 3) + part_cases(rng, n // 3) + query_cases(rng, n // 4) + xta_cases(rng, n // 6)
    dom = dom_cases(rng, True)
    cs += rng.sample(dom, min(len(dom), n // 3))
    res = run_cases([c for _, c in cs], variant="plain", wrapper=MEMCHECK, chunk_size=max(1, len(cs) // 64))
    seen = 0
    for tag, c in cs:
        r = res[c.id]
        if r["status"] == "timeout":
            rep.inconclusive_case("watchdog(memcheck)")
            continue
        seen += 1
        err = r.get("stderr", "")
        if r["status"] == "exit" and r["code"] == 99 or "== Invalid " in err or "uninitialised" in err:
            m = re.search(r"==\d+== ([A-Z][^\n]{0,70})", err)
            what = re.sub(r"\d+", "N", m.group(1)).strip().replace(" ", "_") if m else "report"
            fr = []
            for fm in re.finditer(r"^==\d+==\s+(?:at|by) 0x[0-9A-F]+: (.+?) \((\S+?):\d+\)\s*$", err, re.M):
                fn, f = fm.group(1), fm.group(2)
                if f.endswith((".cpp", ".y", ".l", ".h", ".cc")) and not f.startswith(("driver", "dump", "invariants", "laws")) \
                        and not fn.startswith("std::") and "vg_replace" not in f:
                    fr.append(re.sub(r"\(.*$", "", fn))
                if len(fr) >= 2:
                    break
            rep.violation("C01:memcheck:%s:%s" % (what[:50], ">".join(fr) or "noframe"),
                          "valgrind memcheck report on input class %s: %s" % (tag, err[:1500]), c)
        elif r["status"] != "ok":
            # the uninstrumented build may die on inputs that are listed findings of the ASan pass; classify as there
            if "stack" in err.lower() or r.get("code") == 11:
                rep.inconclusive_case("signal in memcheck pass (decided by the ASan pass)")
            else:
                rep.inconclusive_case("memcheck child status %s/%s" % (r["status"], r.get("code")))
        else:
            rep.observe(("memcheck", tag.split("/")[0], len(r["steps"][-1].get("errors", []))))
    rep.extra["memcheck_cases"] = seen


def run(rep, tier, seed):
    selftest(rep)
    rng = random.Random(seed * 1000003 + 1)
    quick = tier == "quick"
    k = 1 if quick else 20
    groups = [("dom", dom_cases(rng, quick)), ("models", model_cases(rng, 3000 * k)), ("parts", part_cases(rng, 3000 * k)),
              ("queries", query_cases(rng, 1200 * k)), ("xta", xta_cases(rng, 800 * k))]
    classes = {}
    exc_classes = {}
    for gname, cases in groups:
        res = run_cases([c for _, c in cases])
        redo = []
        for tag, c in cases:
            r = res[c.id]
            cl = tag.split(":")[0] + ":" + tag.split(":")[1].split("/")[0] if ":" in tag else tag
            if r["status"] == "timeout":
                redo.append((tag, c))
                continue
            classes[cl] = classes.get(cl, 0) + 1
            if r["status"] != "ok":
                rep.crash(r, c)
                rep.observe(None)
                continue
            last = r["steps"][-1]
            exc = last.get("exc")
            if exc:
                exc_classes[exc] = exc_classes.get(exc, 0) + 1
            # distinct non-trivial: distinct (class, outcome, diagnostics) observations
            sig = (cl, exc, tuple(sorted(set(e["msg"] for e in last.get("errors", [])))[:6]), last.get("nerr"))
            rep.observe(sig)
        # watchdog firings: decide with the logical clock instead of wall time
        if redo:
            sc = []
            for tag, c in redo:
                size = sum(len(a) for s in c.steps for a in s.args)
                sc.append((tag, Case(c.id + "r", [Step("steps_begin", STEP_FIXED + STEP_PER_BYTE * size)] + c.steps, timeout=600)))
            r2 = run_cases([c for _, c in sc], variant="steps", chunk_size=1)
            for tag, c in sc:
                r = r2[c.id]
                if r["status"] == "exit" and r["code"] == 97:
                    rep.violation("C01:step-budget-exceeded:%s" % tag.split("/")[0], "input of class %s does not terminate "
                                  "within the step budget (2e9 + 50000/byte)" % tag, c)
                elif r["status"] == "ok":
                    rep.observe(("slow", tag))
                elif r["status"] == "timeout":
                    rep.inconclusive_case("watchdog")
                else:
                    rep.crash(r, c)
    # the assert-enabled configuration (README default build): library asserts act as invariant monitors
    rng2 = random.Random(seed * 7 + 11)
    acases = model_cases(rng2, 2500 * k) + part_cases(rng2, 2500 * k) + query_cases(rng2, 2000 * k) + xta_cases(rng2, 500 * k)
    ares = run_cases([c for _, c in acases], variant="asan-assert")
    n_assert = 0
    for tag, c in acases:
        r = ares[c.id]
        if r["status"] == "timeout":
            rep.inconclusive_case("watchdog(assert build)")
            continue
        n_assert += 1
        if r["status"] != "ok":
            rep.crash(r, c)
    scaling(rep, rng, quick)
    memcheck_sample(rep, random.Random(seed * 31 + 5), 300 if quick else 6000)
    fz = fuzz.run_fuzzers(rep, seed, quick)
    rep.sample({"class": groups[0][1][0][0], "input": groups[0][1][0][1].steps[0].args[-1].decode("utf-8", "replace")[:800]})
    rep.sample({"class": groups[1][1][0][0], "part": groups[1][1][0][1].steps[-1].args[2].decode(), "text": groups[1][1][0][1].steps[-1].args[4].decode("utf-8", "replace")[:300]})
    rep.rule = ("hostile inputs for every entry point (XML buffer/file/fd, XTA buffer/FILE*, every xta_part_t, queries) x "
                "4.x/3.x syntax x back ends (Document+TypeChecker+FeatureChecker, TigaPropertyBuilder, PrettyPrinter, "
                "builder level): structural XML faults, token-level faults, semantic faults; each case in a forked ASan+"
                "UBSan+_GLIBCXX_ASSERTIONS child, a sample again in the assert-enabled build; scaling families under a "
                "logical step clock; libFuzzer targets; distinct = distinct (input class, exception class, diagnostic "
                "set) observations")
    rep.extra["cases_by_class"] = classes
    rep.extra["exception_classes_observed"] = exc_classes
    rep.extra["assert_build_cases"] = n_assert
    rep.extra["libfuzzer"] = fz
    rep.assumptions += ["a std::exception of any class is an allowed outcome", "leaks are not reported (no property mentions them)",
                        "wall-clock watchdog firings are re-decided by the logical step clock"]


def replay(data):
    import json
    c = Case.from_json(data["case"])
    variant = os.environ.get("VERIF_VARIANT", "asan")       # e.g. asan-assert for aborts of the assert-enabled build
    r = run_cases([c], variant=variant)[c.id]
    print(json.dumps(r, indent=1)[:12000])
