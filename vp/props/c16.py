"""C16 - a fault in one text block does not disturb the rest of the document.

Oracle: differential - the fault-free parse of the same model at the same stage (builder level, no static analysis),
with the faulted label's own field masked; for declaration blocks the declarations that precede the faulted one."""
import copy
import random
import re
import xml.etree.ElementTree as ET

from .. import deepdiff, faults, gen_model as GM, lexer
from ..runner import Case, Step, run_cases
from ..xmlgen import esc
from .c06 import blocks_of, inject, unesc, NON_DECLARING

FIELD = {"invariant": ["inv", "inv_str"], "exponentialrate": ["exprate", "exprate_str"], "guard": ["guard", "guard_str"],
         "synchronisation": ["sync", "sync_str"], "assignment": ["assign", "assign_str"], "probability": ["prob", "prob_str"]}


def locators(xml):
    """ordinal of element (document order) -> where its content lands in the document dump."""
    root = ET.fromstring(xml.encode("utf-8"))
    order = {id(e): i for i, e in enumerate(root.iter())}
    loc = {}
    for ti, t in enumerate(root.findall("template")):
        for li, l in enumerate(t.findall("location")):
            for lab in l.findall("label"):
                loc[order[id(lab)]] = ("loc", ti, li, lab.get("kind"))
        for ei, tr in enumerate(t.findall("transition")):
            for lab in tr.findall("label"):
                loc[order[id(lab)]] = ("edge", ti, ei, lab.get("kind"))
    return loc


def mask(doc, where):
    d = copy.deepcopy(doc)
    kind, ti, i, lk = where
    if ti < len(d["templates"]):
        coll = d["templates"][ti]["locations" if kind == "loc" else "edges"]
        if i < len(coll):
            for f in FIELD.get(lk, []):
                coll[i][f] = "<masked>"
    return d


def split_decls(text):
    """Top-level declarations of a declaration block: list of (start, end) spans."""
    spans = []
    depth = 0
    start = None
    toks = lexer.tokenize(text)
    for i, t in enumerate(toks):
        if start is None:
            start = t.pos
        if t.text == "{":
            depth += 1
        elif t.text == "}":
            depth -= 1
            if depth == 0 and not (i + 1 < len(toks) and toks[i + 1].text in (";", "=")) and not re.match(r"\s*(typedef|struct)\b", text[start:]):
                spans.append((start, t.pos + 1))
                start = None
        elif t.text == ";" and depth == 0:
            spans.append((start, t.pos + 1))
            start = None
    return spans


def declared_names(text):
    """Names a declaration text introduces at top level (variables and functions)."""
    toks = lexer.tokenize(text)
    names = []
    depth = 0
    for i, t in enumerate(toks):
        if t.text in ("{", "(", "["):
            depth += 1
        elif t.text in ("}", ")", "]"):
            depth -= 1
        elif depth == 0 and t.kind == "id" and t.text not in lexer.KEYWORDS and i + 1 < len(toks) and toks[i + 1].text in (";", ",", "=", "[", "("):
            if i > 0 and toks[i - 1].text not in (".",):
                names.append(t.text)
    return names


def move_selects(xml, rng):
    """Edges whose other labels do not mention the select binders: the select label is written after them (the format
    allows labels in any order; editors write select first)."""
    def tr(m):
        body = m.group(0)
        sm = re.search(r'<label kind="select"[^>]*>(.*?)</label>', body, re.S)
        if not sm or rng.random() < 0.5:
            return body
        binders = re.findall(r"(\w+)\s*:", sm.group(1))
        rest = body[:sm.start()] + body[sm.end():]
        texts = " ".join(re.findall(r"<label [^>]*>(.*?)</label>", rest, re.S))
        if any(re.search(r"\b%s\b" % re.escape(b), texts) for b in binders):
            return body
        k = rest.rfind("</label>")
        if k < 0:
            return body
        k += len("</label>")
        return rest[:k] + sm.group(0) + rest[k:]
    return re.sub(r"<transition\b.*?</transition>", tr, xml, flags=re.S)


def run(rep, tier, seed):
    rep.level = "fault_enumeration"
    rng = random.Random(seed * 1000003 + 16)
    quick = tier == "quick"
    n = 10000 if quick else 120000
    mg = GM.ModelGen(rng, 3, 5, 10)
    items = []
    while len(items) < n:
        m = mg.model()
        xml = GM.render_xml(m, rng)
        if rng.random() < 0.5:
            xml = move_selects(xml, rng)
        bl = blocks_of(xml)
        locs = locators(xml)
        base_case = Case("b%d" % len(items), [Step("parse_builder", 0, "xml_buffer", 1, "doc", 1, xml)], timeout=60)
        group = []
        for _ in range(10):
            b = rng.choice(bl)
            kind = b["kind"]
            if kind.startswith("label:") and kind[6:] in NON_DECLARING and b["ordinal"] in locs:
                inj = inject(b["text"], kind, rng)
                if inj is None:
                    continue
                new, fault, _ = inj
                if rng.random() < 0.3:
                    new, fd = faults.token_faults(b["text"], rng, 1)
                    fault = "token:" + fd[0]
                    if "long-id" in fault:
                        continue
                xml2 = xml[:b["span"][0]] + esc(new) + xml[b["span"][1]:]
                group.append({"type": "label", "where": locs[b["ordinal"]], "fault": fault, "xml": xml2})
            elif kind == "declaration":
                spans = split_decls(b["text"])
                if len(spans) < 2:
                    continue
                i = rng.randrange(1, len(spans))
                s, e = spans[i]
                inner = b["text"][s:e]
                toks = lexer.tokenize(inner)
                if len(toks) < 2:
                    continue
                if rng.random() < 0.5:
                    t = rng.choice(toks)
                    new = b["text"][:s + t.pos] + b["text"][s + t.pos + len(t.text):]
                    fault = "decl-delete-token"
                else:
                    t = rng.choice(toks[1:])
                    new = b["text"][:s + t.pos]
                    fault = "decl-truncate"
                before = [nm for (ss, ee) in spans[:i] for nm in declared_names(b["text"][ss:ee])]
                is_global = xml[:b["span"][0]].count("<template") == 0
                tix = xml[:b["span"][0]].count("<template>") - 1
                group.append({"type": "decl", "fault": fault, "xml": xml[:b["span"][0]] + esc(new) + xml[b["span"][1]:],
                              "before": before, "global": is_global, "template": tix})
        if not group:
            continue
        for g in group:
            g["base"] = base_case
            g["case"] = Case("f%d" % (len(items)), [Step("parse_builder", 0, "xml_buffer", 1, "doc", 1, g["xml"])], timeout=60)
            items.append(g)
    # ---- faults that only the type checker sees: compare after static analysis (Document entry point)
    titems = []
    TC_DECL = "\nint tcf(int p) { return p; }\nvoid tcr(int &r) { r = 1; }\n"
    TYPE_FAULTS = {"label:guard": [" && tcf(gx0) > 0", " && (c0 == 1)", " && ((g0 = 1) > 0)", " && gx0 + gx0 < 3", " && tcf(c0) == 0"],
                   "label:invariant": [" && tcf(gx0) > 0", " && (c0 == 1)", " && gx0 * 2 < 3"],
                   "label:assignment": [", tcr(N)", ", N = 1", ", gx0 = c0", ", tcr(g0 + 1)", ", tcf(c0)"],
                   "label:probability": [" + c0"], "label:exponentialrate": [" + c0"], "label:synchronisation": ["<drop-direction>"]}
    for _ in range(1500 if quick else 30000):
        m = mg.model()
        xml = GM.render_xml(m, rng)
        xml = xml.replace("</declaration>", esc(TC_DECL) + "</declaration>", 1)
        bl = [b for b in blocks_of(xml) if b["kind"] in TYPE_FAULTS]
        if not bl:
            continue
        locs = locators(xml)
        b = rng.choice(bl)
        if b["ordinal"] not in locs:
            continue
        f = rng.choice(TYPE_FAULTS[b["kind"]])
        new = b["text"].rstrip().rstrip("!?") if f == "<drop-direction>" else b["text"] + f
        xml2 = xml[:b["span"][0]] + esc(new) + xml[b["span"][1]:]
        k = len(titems)
        titems.append({"where": locs[b["ordinal"]], "fault": "type:" + (f if f.startswith("<") else new[len(b["text"]):].strip(" ,&")),
                       "base": Case("tb%d" % k, [Step("parse_doc", 0, "xml_buffer", 1, 1, xml)], timeout=60),
                       "case": Case("tf%d" % k, [Step("parse_doc", 0, "xml_buffer", 1, 1, xml2), Step("parse_builder", 1, "xml_buffer", 1, "doc", 0, xml2)], timeout=60)})
    bases = {}
    for g in items:
        bases[g["base"].id] = g["base"]
    res = run_cases(list(bases.values()) + [g["case"] for g in items] + [g["base"] for g in titems] + [g["case"] for g in titems])
    for g in titems:
        rb, rf = res[g["base"].id], res[g["case"].id]
        if rb["status"] != "ok" or rf["status"] != "ok":
            bad = rf if rf["status"] != "ok" else rb
            rep.crash(bad, g["case"] if bad is rf else g["base"])
            continue
        sb, sf, sbuild = rb["steps"][0], rf["steps"][0], rf["steps"][1]
        if sb.get("exc") or sb["errors"]:
            rep.inconclusive_case("base model not accepted")
            continue
        if sf.get("exc") or sbuild.get("exc") or sbuild["errors"] or not sf["errors"]:
            rep.observe(None)      # rejected by the builder already (covered above) or not a fault at all
            continue
        kind, ti, i, lk = g["where"]
        rep.observe(("typecheck", g["fault"], lk))
        mb, mf = mask(sb["doc"], g["where"]), mask(sf["doc"], g["where"])
        # document-wide summary flags (strict invariants, urgent transitions, ...) are derived from every label,
        # the faulted one included: they are part of that label's own contribution
        mb.pop("flags", None)
        mf.pop("flags", None)
        d = deepdiff.first_diff(mb, mf)
        if d:
            rep.violation("C16:document-disturbed(analysed):%s:%s" % (lk, re.sub(r"^/templates/\[\]", "T", d[0])),
                          "type-level fault %r in a %s label changes %s outside that label after static analysis: %r -> %r" % (
                              g["fault"], lk, d[0], d[1], d[2]), g["case"])
        want = "/nta/template[%d]/%s[%d]/label[" % (ti + 1, "location" if kind == "loc" else "transition", i + 1)
        for e in sf["errors"]:
            if not e["path"].startswith(want):
                rep.violation("C16:diagnostic-in-other-block(analysed):%s" % lk, "type-level fault %r in %s..]: error %r attributed to %s" % (
                    g["fault"], want, e["msg"], e["path"]), g["case"])
                break
        own = lambda w: w["path"].startswith(want)
        if sorted((w["msg"], w["path"]) for w in sf["warnings"] if not own(w)) != sorted((w["msg"], w["path"]) for w in sb["warnings"] if not own(w)):
            rep.violation("C16:warnings-disturbed(analysed):%s" % lk, "type-level fault %r in a %s label changes the warnings of the "
                          "rest of the document: %s -> %s" % (g["fault"], lk, [w["msg"] for w in sb["warnings"]][:3], [w["msg"] for w in sf["warnings"]][:3]), g["case"])
    depth_obs = {}
    for g in items:
        rb, rf = res[g["base"].id], res[g["case"].id]
        if rb["status"] != "ok" or rf["status"] != "ok":
            bad = rf if rf["status"] != "ok" else rb
            rep.crash(bad, g["case"] if bad is rf else g["base"])
            rep.observe(None)
            continue
        sb, sf = rb["steps"][0], rf["steps"][0]
        if sb.get("exc") or sb["errors"]:
            rep.inconclusive_case("base model not accepted at builder level")
            continue
        if sf.get("exc"):
            rep.observe(None)       # parse abandoned with an exception: no document to compare
            continue
        key = (sf.get("nfrag"), sf.get("nframes"))
        depth_obs[str(key)] = depth_obs.get(str(key), 0) + 1
        if g["type"] == "label":
            rep.observe((g["fault"], g["where"][3], tuple(sorted(e["msg"] for e in sf["errors"]))[:3]) if sf["errors"] else None)
            d = deepdiff.first_diff(mask(sb["doc"], g["where"]), mask(sf["doc"], g["where"]))
            if d:
                rep.violation("C16:document-disturbed:%s:%s" % (g["where"][3], re.sub(r"^/templates/\[\]", "T", d[0])),
                              "fault %s in a %s label changes %s outside that label: %r -> %r (residual stacks %s)" % (
                                  g["fault"], g["where"][3], d[0], d[1], d[2], key), g["case"])
            # attribution: every diagnostic must carry the faulted label's own path
            kind, ti, i, lk = g["where"]
            for e in sf["errors"]:
                want = "/nta/template[%d]/%s[%d]/label[" % (ti + 1, "location" if kind == "loc" else "transition", i + 1)
                if not e["path"].startswith(want):
                    rep.violation("C16:diagnostic-in-other-block:%s" % lk, "fault %s in %s: error %r attributed to %s" % (
                        g["fault"], want + "..]", e["msg"], e["path"]), g["case"])
                    break
        else:
            rep.observe((g["fault"], len(g["before"]), tuple(sorted(e["msg"] for e in sf["errors"]))[:2]) if sf["errors"] else None)
            if g["global"]:
                db, df = sb["doc"]["globals"], sf["doc"]["globals"]
            else:
                if g["template"] >= len(sf["doc"]["templates"]):
                    rep.violation("C16:template-lost", "fault %s in a local declaration: template %d missing" % (g["fault"], g["template"]), g["case"])
                    continue
                db, df = sb["doc"]["templates"][g["template"]]["decl"], sf["doc"]["templates"][g["template"]]["decl"]
            vb = {v["name"]: v for v in db["vars"]}
            # a fault can turn the faulted declaration into a second declaration of an earlier name (reported as a
            # duplicate); the earlier declaration is the first one of that name
            vf = {}
            for v in df["vars"]:
                vf.setdefault(v["name"], v)
            fb = {f["name"]: f for f in db["funcs"]}
            ff = {f["name"]: f for f in df["funcs"]}
            for nm in g["before"]:
                if nm in vb and vf.get(nm) != vb[nm]:
                    rep.violation("C16:earlier-declaration-%s" % ("lost" if nm not in vf else "changed"),
                                  "fault %s after the declaration of %s: that variable is %s" % (g["fault"], nm, "missing" if nm not in vf else "changed: %s" % vf[nm]), g["case"])
                    break
                if nm in fb and ff.get(nm) != fb[nm]:
                    rep.violation("C16:earlier-function-%s" % ("lost" if nm not in ff else "changed"),
                                  "fault %s after the declaration of function %s: %s" % (g["fault"], nm, "missing" if nm not in ff else "changed"), g["case"])
                    break
    # ---- a fixed two-template fixture (shared with C07): after a fault inside a label of template F - including labels
    # abandoned inside a quantifier body - everything outside F (globals, template G with a parameter and locals whose
    # types use a name that F re-declares locally, instances, processes) must equal the fault-free document
    from . import c07
    fx = []
    for fi, (fname, _) in enumerate(c07.FAULTY):
        if not fname.split(":")[0] in ("guard", "invariant", "assign", "sync", "select"):
            continue
        for f_first in (True, False):
            fx.append((fname, f_first, Case("fx%d" % len(fx), [Step("parse_builder", 0, "xml_buffer", 1, "doc", 1, c07.build_recovery(0, f_first)),
                                                                  Step("parse_builder", 1, "xml_buffer", 1, "doc", 1, c07.build_recovery(fi, f_first))], timeout=60)))
    fres = run_cases([c for _, _, c in fx])
    for fname, f_first, c in fx:
        r = fres[c.id]
        if r["status"] != "ok":
            rep.crash(r, c)
            continue
        s0, s1 = r["steps"][0], r["steps"][1]
        if s0.get("exc") or s0["errors"] or s1.get("exc"):
            rep.inconclusive_case("fixture: base rejected or faulted parse threw")
            continue
        rep.observe(("fixture", fname, f_first))
        def outside_F(doc):
            d2 = copy.deepcopy(doc)
            d2.pop("flags", None)
            d2["templates"] = [t for t in d2["templates"] if t["name"] != "F"]
            return d2
        d = deepdiff.first_diff(outside_F(s0["doc"]), outside_F(s1["doc"]))
        if d:
            rep.violation("C16:fixture:document-disturbed:%s:%s" % (fname.split(":")[0], re.sub(r"\[\d*\]", "[]", d[0])),
                          "fault %r in a label of template F (F %s G) changes %s outside F: %r -> %r" % (
                              fname, "before" if f_first else "after", d[0], d[1], d[2]), c)
        for e in s1["errors"]:
            if "/template[%d]/" % (1 if f_first else 2) not in e["path"]:
                rep.violation("C16:fixture:diagnostic-in-other-block:%s" % fname.split(":")[0], "fault %r inside F: error %r attributed to %s" % (
                    fname, e["msg"], e["path"]), c)
                break
    rep.sample({"type": items[0]["type"], "fault": items[0]["fault"], "xml": items[0]["xml"][:900]})
    rep.rule = ("one fault in one non-declaring label (guard, invariant, synchronisation, update, probability, rate) of a "
                "generated multi-template model: document at builder level compared with the fault-free parse, that "
                "label's field masked, and every error path compared with the label's path; for declaration blocks: "
                "deletion of a token / truncation inside declaration i, declarations before i compared; non-trivial = "
                "the fault produced a diagnostic; distinct = (fault, label kind, messages)")
    rep.extra["residual_stack_depths(nfrag,nframes)"] = depth_obs


def replay(data):
    import json
    c = Case.from_json(data["case"])
    r = run_cases([c])[c.id]
    print(json.dumps(r, indent=1)[:8000])
