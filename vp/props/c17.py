"""C17 - analysis methods are reported as supported only when the model permits them.

Oracle: a reference feature detector by construction (each model is built around one restricting feature placed at a
chosen syntactic position) plus two metamorphic relations (uninstantiated templates, declaration order)."""
import random

from .. import accept, xmlgen
from ..xmlgen import esc

GDECL = "clock x; clock y; hybrid clock hx; double d; int i; int j; bool b; const int N = 2; broadcast chan bc;"


def templ(name, tdecl="", inv=None, guard=None, update=None, params="", extra_loc_labels=None, sync=None):
    labs = []
    if guard is not None:
        labs.append(("guard", guard))
    if sync is not None:
        labs.append(("synchronisation", sync))
    if update is not None:
        labs.append(("assignment", update))
    ll = []
    if inv is not None:
        ll.append(("invariant", inv))
    out = ["<template><name>%s</name>" % name]
    if params:
        out.append("<parameter>%s</parameter>" % esc(params))
    out.append("<declaration>%s</declaration>" % esc(tdecl))
    out.append('<location id="%s_a"><name>A</name>%s</location>' % (name, "".join(xmlgen.label(k, t) for k, t in ll)))
    out.append('<location id="%s_b"><name>B</name></location><init ref="%s_a"/>' % (name, name))
    out.append('<transition><source ref="%s_a"/><target ref="%s_b"/>%s</transition>' % (name, name, "".join(xmlgen.label(k, t) for k, t in labs)))
    out.append("</template>")
    return "".join(out)


def model(gdecl, templates, system):
    return xmlgen.HEADER + "<nta><declaration>%s</declaration>%s<system>%s</system></nta>" % (esc(gdecl), "".join(templates), esc(system))


def fp_compare_guards(rng):
    """(description, guard text) for a clock compared with a floating point value at various placements."""
    out = []
    for op in ("<", "<=", "==", ">=", ">"):
        for order in ("clock-first", "clock-second"):
            cmp_ = "x %s 1.5" % op if order == "clock-first" else "1.5 %s x" % op
            out.append(("guard-root/%s/%s" % (op, order), cmp_))
            for pos in range(3):
                parts = ["i == 0", "j < 3", "b"]
                parts.insert(pos, cmp_)
                out.append(("guard-conjunct%d/%s/%s" % (pos, op, order), " && ".join(parts)))
            out.append(("guard-forall/%s/%s" % (op, order), "forall (q : int[0,1]) %s" % cmp_))
            out.append(("guard-double-var/%s/%s" % (op, order), cmp_.replace("1.5", "d")))
            out.append(("guard-double-expr/%s/%s" % (op, order), cmp_.replace("1.5", "(d * 2.0)")))
            out.append(("guard-parenthesised/%s/%s" % (op, order), "(%s)" % cmp_))
            out.append(("guard-disj-int/%s/%s" % (op, order), "i > 5 || %s" % cmp_))
            # the comparison as the condition of an inline-if inside an integer-typed guard
            out.append(("guard-inline-if-condition/%s/%s" % (op, order), "i == (%s ? 1 : 0)" % cmp_))
            out.append(("guard-inline-if-condition-nested/%s/%s" % (op, order), "j < 3 && ((%s ? i : 0) > 0 || b)" % cmp_))
    return out


def fp_compare_invariants():
    out = []
    for op in ("<", "<="):
        out.append(("invariant-root/%s" % op, "x %s 1.5" % op))
        out.append(("invariant-conjunct/%s" % op, "y <= 5 && x %s 1.5" % op))
        out.append(("invariant-double-var/%s" % op, "x %s d" % op))
    return out


def systematic_fp(rng, full=False):
    """floating point value source x clock operand x use position x way the template enters the system"""
    GD = ("clock x; clock y; hybrid clock hx; double d; int i; const int N = 2; broadcast chan bc; const double D = 1.5; "
          "typedef double real; real r; typedef struct { double w; int n; } SD; SD sd; double da[2]; const double CDA[2] = { 0.5, 1.5 }; "
          "double fd() { return 1.5; } const real CR = 2.5; meta double md; clock xa[2]; typedef struct { clock c; int n; } SC; SC sc;")
    # (name, text, extra template parameter or None, argument, usable in an initialiser)
    values = [("literal", "1.5", None, None, True), ("double-var", "d", None, None, False), ("double-expr", "(d * 2.0)", None, None, False),
              ("const-double", "D", None, None, True), ("typedef-double-var", "r", None, None, False), ("const-typedef-double", "CR", None, None, True),
              ("struct-field", "sd.w", None, None, False), ("array-element", "da[1]", None, None, False), ("const-array-element", "CDA[1]", None, None, True),
              ("function-result", "fd()", None, None, False), ("int-times-double", "(i * 0.5)", None, None, False), ("const-expr", "(D + 1.0)", None, None, True),
              ("meta-double", "md", None, None, False), ("ref-double-parameter", "pd", "double &pd", "d", False),
              ("const-double-parameter", "cpd", "const double cpd", "1.5", False), ("negated-literal", "-1.5", None, None, True),
              ("inline-if-double", "(i > 0 ? 1.5 : 2.5)", None, None, False)]
    clocks = [("clock-array-element", "xa[1]", None, None, ""), ("clock-array-element-var-index", "xa[i]", None, None, ""),
              ("struct-field-clock", "sc.c", None, None, ""), ("local-clock-array-element", "lxa[0]", None, None, "clock lxa[2];"),
              ("global-clock", "x", None, None, ""), ("local-clock", "lx", None, None, "clock lx;"), ("clock-difference", "x - y", None, None, ""),
              ("local-difference", "lx - x", None, None, "clock lx;"), ("ref-clock-parameter", "px", "clock &px", "x", "")]
    out = []
    for vn, vt, vpar, varg, vinit in values:
        for cn, ct, cpar, carg, ctd in clocks:
            uses = []
            for op in ("<", "<=", "==", ">=", ">"):
                uses.append(("guard/%s" % op, {"guard": "%s %s %s" % (ct, op, vt)}))
                uses.append(("guard-reversed/%s" % op, {"guard": "%s %s %s" % (vt, op, ct)}))
            uses.append(("guard-conjunct", {"guard": "i >= 0 && %s < %s" % (ct, vt)}))
            uses.append(("guard-inline-if-condition", {"guard": "i == (%s < %s ? 1 : 0)" % (ct, vt)}))
            uses.append(("update-inline-if-condition", {"update": "i = (%s >= %s ? 1 : 0)" % (ct, vt)}))
            for op in ("<", "<="):
                uses.append(("invariant/%s" % op, {"inv": "%s %s %s" % (ct, op, vt)}))
            if "-" not in ct:
                uses.append(("update", {"update": "%s = %s" % (ct, vt)}))
                uses.append(("update-second", {"update": "i = 1, %s = %s" % (ct, vt)}))
            # sample the uses (the full product is in the thorough tier through more seeds): two per (value, clock)
            for un, kw in (uses if full else rng.sample(uses, 3)):
                pars = [p for p in (vpar, cpar) if p]
                args = [a for a, p in ((varg, vpar), (carg, cpar)) if p]
                for how in ("plain", "free-parameter", "partial-instance", "bound-instance"):
                    plist = list(pars)
                    if how == "plain":
                        if plist:
                            sysl = "P1 = P(%s);\nsystem P1;" % ", ".join(args)
                        else:
                            sysl = "system P;"
                    elif how == "free-parameter":
                        plist = ["const int[0,2] id"] + plist
                        if pars:
                            sysl = "Q(const int[0,2] fid) = P(fid, %s);\nsystem Q;" % ", ".join(args)
                        else:
                            sysl = "system P;"
                    elif how == "partial-instance":
                        plist = ["const int[0,2] id", "const int k"] + plist
                        sysl = "Q(const int[0,2] fid) = P(%s);\nsystem Q;" % ", ".join(["fid", "3"] + args)
                    else:
                        plist = ["const int[0,2] id"] + plist
                        sysl = "P1 = P(%s);\nsystem P1;" % ", ".join(["1"] + args)
                    t = templ("P", tdecl=ctd, params=", ".join(plist), **kw)
                    out.append(("fp-systematic", "%s/%s/%s/%s" % (vn, cn, un, how), model(GD, [t], sysl), {0}))
        if vinit:
            out.append(("fp-systematic", "%s/global-clock-init" % vn, model(GD + " clock z = %s;" % vt, [templ("P")], "system P;"), {0}))
            out.append(("fp-systematic", "%s/local-clock-init" % vn, model(GD, [templ("P", tdecl="clock lz = %s;" % vt)], "system P;"), {0}))
            out.append(("fp-systematic", "%s/local-clock-init/free-parameter" % vn,
                        model(GD, [templ("P", tdecl="clock lz = %s;" % vt, params="const int[0,2] id")], "system P;"), {0}))
    # the other symbolic restrictions entering the system through a process set / partial instance
    for fname, kw in (("rate", {"inv": "x' == 2"}), ("fp-assign-in-function", {"tdecl": "void f() { x = 1.5; }", "update": "f()"})):
        out.append(("instantiation", fname + "/free-parameter", model(GD, [templ("P", params="const int[0,2] id", **kw)], "system P;"), {0}))
        out.append(("instantiation", fname + "/partial-instance",
                    model(GD, [templ("P", params="const int[0,2] id, const int k", **kw)], "Q(const int[0,2] fid) = P(fid, 3);\nsystem Q;"), {0}))
        out.append(("instantiation", fname + "/free-parameter-and-bound-instance",
                    model(GD, [templ("P", params="const int[0,2] id", **kw), templ("H", params="const int[0,2] id")], "H1 = H(1);\nsystem P, H1;"), {0}))
    return out


def run(rep, tier, seed):
    rep.level = "fault_enumeration"
    rng = random.Random(seed * 1000003 + 17)
    items = []      # (feature class, description, model, expected-false indices {0: symbolic, 1: stochastic, 2: concrete})
    sys1 = "system P;"
    for desc, g in fp_compare_guards(rng):
        items.append(("fp-compare", desc, model(GDECL, [templ("P", guard=g)], sys1), {0}))
    for desc, inv in fp_compare_invariants():
        items.append(("fp-compare", desc, model(GDECL, [templ("P", inv=inv)], sys1), {0}))
        items.append(("fp-compare", desc + "+guard", model(GDECL, [templ("P", inv=inv, guard="x < 2.5")], sys1), {0}))
    # assignments from floating point values
    for desc, upd, td in [("update-clock-literal", "x = 1.5", ""), ("update-clock-second", "i = 1, x = 1.5", ""),
                          ("update-clock-third", "i = 1, j = 2, x = 0.5, b = true", ""), ("update-clock-from-double", "x = d", ""),
                          ("update-double-var", "d = 2.5", ""), ("update-double-expr", "i = 0, d = d * 2.0", ""),
                          ("update-local-clock", "lx = 2.5", "clock lx;"), ("update-in-function", "f()", "void f() { x = 1.5; }"),
                          ("update-in-function-chain", "g()", "void f() { d = 1.5; } void g() { f(); }"),
                          ("update-mixed-hybrid-normal", "hx = 1.5, x = 2.5", ""),
                          ("update-through-ref-clock-parameter", "setc(x)", "void setc(clock &c) { c = 1.5; }"),
                          ("update-through-ref-double-parameter", "setd(d)", "void setd(double &v) { v = 2.5; }"),
                          ("update-through-ref-parameter-nested", "outer(x)", "void setc(clock &c) { if (i > 0) { c = d; } } void outer(clock &c2) { setc(c2); }"),
                          ("update-through-ref-parameter-local-clock", "setc(lx)", "clock lx; void setc(clock &c) { c = 0.5; }"),
                          ("update-clock-array-element", "xa2[1] = 1.5", "clock xa2[2];"),
                          ("update-in-function-local-only", "lf()", "clock lx2; void lf() { double t = 1.5; lx2 = t; }")]:
        items.append(("fp-assign", desc, model(GDECL, [templ("P", tdecl=td, update=upd)], sys1), {0}))
    # clock initialised with a floating point value
    items.append(("fp-init", "global-clock-init", model(GDECL + " clock z = 1.5;", [templ("P")], sys1), {0}))
    items.append(("fp-init", "local-clock-init", model(GDECL, [templ("P", tdecl="clock lz = 0.5;")], sys1), {0}))
    items.append(("fp-init", "global-clock-init-expr", model(GDECL + " clock z = 3.0 / 2.0;", [templ("P")], sys1), {0}))
    # rates
    for desc, inv in [("rate-2", "x' == 2"), ("rate-2-reversed", "2 == x'"), ("rate-2-conjunct-first", "x' == 2 && x <= 5"),
                      ("rate-2-conjunct-last", "x <= 5 && y <= 7 && x' == 2"), ("rate-3-middle", "x <= 5 && x' == 3 && y <= 7"),
                      ("rate-two-clocks", "x' == 1 && y' == 4"), ("rate-negative", "x' == -1"), ("rate-10", "x' == 10"),
                      ("rate-parenthesised", "(x' == 2)"), ("rate-float", "x' == 2.5"), ("rate-float-reversed", "0.5 == x'"), ("rate-forall", "forall (q : int[0,1]) x' == 2")]:
        items.append(("rate", desc, model(GDECL, [templ("P", inv=inv)], sys1), {0}))
    # dynamic templates
    items.append(("dynamic", "dynamic-template", model(GDECL + " dynamic D(int p);", [templ("P")], sys1), {0}))
    # a restricting feature surrounded by harmless constructs (before and after it, same and other templates):
    # a later harmless location / edge / variable must not erase what an earlier one established
    harmless_q = templ("Q", tdecl="clock qx; int qi = 2;", inv="qx <= 5", guard="qx >= 1 && qi < 3", update="qi = 1, qx = 0")
    harmless_r = templ("R", tdecl="clock rx;", inv="rx <= 7 && rx' == 1")
    feats = [("fp-compare", templ("P", guard="x < 1.5")), ("fp-compare-inv", templ("P", inv="x <= 1.5")), ("fp-assign", templ("P", update="x = 1.5")),
             ("rate", templ("P", inv="x' == 2")), ("fp-init", templ("P", tdecl="clock lz = 0.5;"))]
    for fname, ft in feats:
        for order, ts, sysl in (("feature-first", [ft, harmless_q, harmless_r], "system P, Q, R;"), ("feature-last", [harmless_q, harmless_r, ft], "system Q, R, P;"),
                                ("feature-middle", [harmless_q, ft, harmless_r], "system R, P, Q;")):
            items.append(("composed", "%s/%s" % (fname, order), model(GDECL, ts, sysl), {0}))
    # two locations in one template: the restricting invariant first / last
    def two_loc(inv_a, inv_b):
        return ('<template><name>P</name><declaration/>'
                '<location id="a"><name>A</name>%s</location><location id="b"><name>B</name>%s</location><location id="c"><name>C</name>%s</location>'
                '<init ref="a"/><transition><source ref="a"/><target ref="b"/></transition></template>' % (
                    xmlgen.label("invariant", inv_a), xmlgen.label("invariant", inv_b), xmlgen.label("invariant", "y <= 9")))
    for desc, ia, ib in [("rate-then-plain", "x' == 2", "x <= 5"), ("plain-then-rate", "x <= 5", "x' == 2"), ("fpcmp-then-plain", "x <= 1.5", "y <= 5"),
                         ("plain-then-fpcmp", "y <= 5", "x <= 1.5")]:
        items.append(("composed", "two-locations/" + desc, model(GDECL, [two_loc(ia, ib)], sys1), {0}))
    items.append(("composed", "global-fp-clock-init+invariant", model(GDECL + " clock z = 2.5;", [templ("P", inv="x <= 5")], sys1), {0}))
    items.append(("composed", "chan+priorities", model(GDECL + " chan c;", [templ("P"), templ("Q")], "system P < Q;"), {1, 2}))
    # channels
    for desc, gd, td, par, sy in [("local-urgent-chan", "", "urgent chan lu;", "", sys1), ("global-urgent-chan-array", " urgent chan ua[3];", "", "", sys1),
                                  ("local-urgent-chan-array", "", "urgent chan lua[2];", "", sys1),
                                  ("typedef-urgent-chan-local", " typedef urgent chan uc_t;", "uc_t tu;", "", sys1),
                                  ("typedef-chan-global", " typedef chan c_t; c_t tc;", "", "", sys1),
                                  ("local-chan-after-broadcast", "", "broadcast chan lb; chan lc2;", "", sys1),("global-chan", " chan c;", "", "", sys1), ("global-urgent-chan", " urgent chan c;", "", "", sys1),
                                  ("global-chan-array", " chan ca[2];", "", "", sys1), ("local-chan", "", "chan lc;", "", sys1),
                                  ("chan-after-broadcast", " broadcast chan b2; chan c;", "", "", sys1),
                                  ("chan-in-struct-free", " chan c1, c2;", "", "", sys1),
                                  ("chan-parameter", " chan c;", "", "chan &pc", "P1 = P(c);\nsystem P1;")]:
        items.append(("channel", desc, model(GDECL + gd, [templ("P", tdecl=td, params=par)], sy), {1}))
    # priorities
    items.append(("priority", "process-priorities", model(GDECL, [templ("P"), templ("Q")], "system P < Q;"), {1, 2}))
    items.append(("priority", "channel-priorities", model(GDECL + " chan priority bc < default;", [templ("P")], sys1), {1, 2}))
    for desc, decl in [("single-channel", " chan priority bc;"), ("one-level-list", " broadcast chan b2; chan priority bc, b2;"),
                       ("list-with-default", " chan priority bc, default;"), ("default-only", " chan priority default;"),
                       ("array-elements", " broadcast chan ba[2]; chan priority ba[0], ba[1], bc;"),
                       ("default-first", " chan priority default < bc;"), ("two-levels-list", " broadcast chan b2; chan priority bc, b2 < default;")]:
        items.append(("priority", "channel-priorities/" + desc, model(GDECL + decl, [templ("P")], sys1), {1, 2}))
    items.append(("priority", "three-levels", model(GDECL, [templ("P"), templ("Q"), templ("R")], "system P < Q, R;"), {1, 2}))
    # controls: feature-free models must parse; (over-caution is only an observation)
    controls = [("control", "plain", model(GDECL, [templ("P", guard="x < 2 && i == 0", inv="x <= 5", update="x = 0, i = 1")], sys1), set()),
                ("control", "hybrid-rate", model(GDECL, [templ("P", inv="hx' == 3 && x <= 5")], sys1), set()),
                ("control", "rate-0-1", model(GDECL, [templ("P", inv="x' == 0 && y' == 1")], sys1), set()),
                ("control", "rate-expression", model(GDECL, [templ("P", inv="x' == N")], sys1), set()),
                ("control", "int-compare", model(GDECL, [templ("P", guard="x < 2 && d > 0.5")], sys1), set()),
                ("control", "hybrid-fp-update", model(GDECL, [templ("P", update="hx = 1.5")], sys1), set()),
                ("control", "int-clock-init", model(GDECL + " clock z = 2;", [templ("P")], sys1), set())]
    items += controls
    items += systematic_fp(rng, full=(tier != "quick"))
    # metamorphic: uninstantiated template carrying the feature must not change the verdict of a feature-free model
    feature_templates = [templ("U", guard="x < 1.5"), templ("U", update="x = 1.5"), templ("U", inv="x' == 2"), templ("U", tdecl="clock lz = 0.5;"),
                         templ("U", inv="x <= 1.5")]
    meta = []
    for k, ft in enumerate(feature_templates):
        base = model(GDECL, [templ("P", guard="x < 2")], sys1)
        plus_after = model(GDECL, [templ("P", guard="x < 2"), ft], sys1)
        plus_before = model(GDECL, [ft, templ("P", guard="x < 2")], sys1)
        meta.append(("uninstantiated-%d" % k, base, [plus_after, plus_before]))
    # metamorphic: order of templates / declarations
    a, b_ = templ("P", guard="x < 1.5"), templ("Q", update="i = 1")
    meta.append(("template-order", model(GDECL, [a, b_], "system P, Q;"), [model(GDECL, [b_, a], "system P, Q;"), model(GDECL, [a, b_], "system Q, P;")]))
    g1, g2 = "clock x; clock y; hybrid clock hx; double d; int i; int j; bool b; const int N = 2; chan c; broadcast chan bc;", \
             "broadcast chan bc; chan c; const int N = 2; bool b; int j; int i; double d; hybrid clock hx; clock y; clock x;"
    meta.append(("declaration-order", model(g1, [templ("P")], sys1), [model(g2, [templ("P")], sys1)]))
    models = [m for _, _, m, _ in items]
    for _, base, others in meta:
        models += [base] + others
    vs = accept.verdicts(models, tag="c17")
    names = ["symbolic", "stochastic", "concrete"]
    overcautious = {}
    for (cls, desc, _, exp_false), v in zip(items, vs):
        if v["crash"] is not None:
            rep.crash(v["crash"], v["case"])
            rep.observe(None)
            continue
        if not v["accepted"]:
            if v["exc"]:
                rep.violation("C17:analysis-throws:%s:%s" % (cls, desc.split("/")[0]), "model with feature %s/%s: parse ends in %s" % (cls, desc, v["exc"]), v["case"])
            else:
                rep.inconclusive_case("feature model rejected (%s/%s): %s" % (cls, desc, v["errors"][:1]))
            continue
        rep.observe((cls, desc))
        for k in range(3):
            if k in exp_false and v["methods"][k]:
                rep.violation("C17:%s-reported-with:%s:%s" % (names[k], cls, desc.split("/")[0]),
                              "model containing %s (%s) still reports %s analysis as supported" % (cls, desc, names[k]), v["case"])
            if k not in exp_false and not v["methods"][k]:
                overcautious["%s:%s:%s" % (names[k], cls, desc)] = overcautious.get("%s:%s:%s" % (names[k], cls, desc), 0) + 1
    idx = len(items)
    for name, base, others in meta:
        vb = vs[idx]
        idx += 1
        for o in others:
            vo = vs[idx]
            idx += 1
            if vb["crash"] is not None or vo["crash"] is not None:
                rep.crash(vb["crash"] or vo["crash"], vb["case"] if vb["crash"] else vo["case"])
                continue
            if not vb["accepted"] or not vo["accepted"]:
                rep.inconclusive_case("metamorphic pair rejected: %s %s" % (vb["errors"][:1], vo["errors"][:1]))
                continue
            rep.observe(("meta", name, o))
            if vb["methods"] != vo["methods"]:
                rep.violation("C17:verdict-depends-on:%s" % name.split("-")[0], "supported methods change from %s to %s under %s" % (
                    vb["methods"], vo["methods"], name), vo["case"])
    rep.sample({"feature": items[0][0], "placement": items[0][1]})
    rep.rule = ("one restricting feature per model (floating point compared with a clock at every conjunct position, "
                "operand order, relational operator, under forall, in invariants; floating point assignments at every "
                "list position and inside called functions; floating point clock initialisers; rates other than 0/1 at "
                "every conjunct position; dynamic templates; non-broadcast channels global/local/array/parameter; process "
                "and channel priorities) + metamorphic pairs (uninstantiated templates, declaration/template order); "
                "distinct = (feature class, placement)")
    rep.extra["overcautious_observations"] = overcautious


def replay(data):
    from ..runner import Case, run_cases
    import json
    c = Case.from_json(data["case"])
    print(json.dumps(run_cases([c])[c.id], indent=1)[:6000])
