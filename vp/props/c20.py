"""C20 - the XML writer's template graph mirrors the document it was given.

Oracle: the Document that was written (dumped in the same child before writing) against the written file read with
Python's ElementTree (an XML reader independent of libxml2 and of this library)."""
import random
import xml.etree.ElementTree as ET

from .. import gen_model as GM, workloads
from ..runner import Case, Step, run_cases

TRIVIAL = {"guard": ("", "1", "true"), "assign": ("", "1"), "prob": ("", "1"), "sync": ("",)}


def norm(s):
    return " ".join((s or "").split())


def check_template(rep, c, t, el, has_bp):
    tn = t["name"]
    locs = el.findall("location")
    if len(locs) != len(t["locations"]):
        rep.violation("C20:location-count", "%s: %d location elements for %d locations" % (tn, len(locs), len(t["locations"])), c)
        return
    ids = [l.get("id") for l in locs]
    bps = el.findall("branchpoint")
    allids = ids + [b.get("id") for b in bps]
    if len(set(allids)) != len(allids) or None in allids:
        rep.violation("C20:ids-not-unique", "%s: ids %s" % (tn, allids), c)
        return
    if len(bps) != len(t["branchpoints"]):
        rep.violation("C20:branchpoint-count", "%s: %d branchpoint elements for %d branchpoints" % (tn, len(bps), len(t["branchpoints"])), c)
    id2name = {}
    for l, dl in zip(locs, t["locations"]):
        nm = l.find("name")
        id2name[l.get("id")] = "L:" + dl["name"]
        if nm is None or norm(nm.text) != dl["name"]:
            rep.violation("C20:location-name", "%s: location %s written with name %r" % (tn, dl["name"], None if nm is None else nm.text), c)
        labels = {x.get("kind"): norm(x.text) for x in l.findall("label")}
        for kind, key in (("invariant", "inv_str"), ("exponentialrate", "exprate_str")):
            want = norm(dl[key])
            # the writer removes the "1 && " that static analysis puts in front of an invariant (same constraint)
            if want.startswith("1 && ") and labels.get(kind) == want[5:]:
                continue
            if want and labels.get(kind) != want:
                rep.violation("C20:location-%s" % kind, "%s.%s: %s label %r, document has %r" % (tn, dl["name"], kind, labels.get(kind), want), c)
            if not want and labels.get(kind):
                rep.violation("C20:location-%s-invented" % kind, "%s.%s: %s label %r for an empty expression" % (tn, dl["name"], kind, labels.get(kind)), c)
        urgent, committed = l.find("urgent") is not None, l.find("committed") is not None
        if urgent != dl["urgent"] or committed != dl["committed"]:
            rep.violation("C20:location-flag", "%s.%s: urgent=%s committed=%s written, document %s/%s" % (
                tn, dl["name"], urgent, committed, dl["urgent"], dl["committed"]), c)
    for b, db in zip(bps, t["branchpoints"]):
        id2name[b.get("id")] = "B:" + db["name"]
    inits = el.findall("init")
    if len(inits) != 1 or id2name.get(inits[0].get("ref")) != "L:" + (t["init"] or ""):
        rep.violation("C20:init", "%s: init refs %s, document init %s" % (tn, [i.get("ref") for i in inits], t["init"]), c)
    trs = el.findall("transition")
    if len(trs) != len(t["edges"]):
        rep.violation("C20:transition-count", "%s: %d transitions for %d edges" % (tn, len(trs), len(t["edges"])), c)
        return
    for i, (tr, e) in enumerate(zip(trs, t["edges"])):
        src, dst = tr.find("source"), tr.find("target")
        gs = id2name.get(src.get("ref")) if src is not None else None
        gd = id2name.get(dst.get("ref")) if dst is not None else None
        if gs != e["src"] or gd != e["dst"]:
            rep.violation("C20:endpoints%s" % ("(branchpoint)" if "B:" in (e["src"] + e["dst"]) else ""),
                          "%s edge %d: written %s -> %s, document %s -> %s" % (tn, i, gs, gd, e["src"], e["dst"]), c)
        ctrl = tr.get("controllable")
        written_ctrl = True if ctrl is None else (ctrl == "true")
        if written_ctrl != e["control"]:
            rep.violation("C20:controllable", "%s edge %d: controllable=%r written, edge.control=%s" % (tn, i, ctrl, e["control"]), c)
        labels = {}
        for x in tr.findall("label"):
            labels.setdefault(x.get("kind"), []).append(norm(x.text))
        for kind, key, tkey in (("guard", "guard_str", "guard"), ("synchronisation", "sync_str", "sync"),
                                ("assignment", "assign_str", "assign"), ("probability", "prob_str", "prob")):
            want = norm(e[key])
            got = labels.get(kind, [])
            if want not in TRIVIAL[tkey]:
                if got != [want]:
                    rep.violation("C20:label-%s" % kind, "%s edge %d: %s label %r, document has %r" % (tn, i, kind, got, want), c)
            elif got and got != [want]:
                rep.violation("C20:label-%s-invented" % kind, "%s edge %d: %s label %r, document has %r" % (tn, i, kind, got, want), c)
        want_sel = ", ".join("%s : %s" % (n, d) for n, d in e["select_decl"])
        got_sel = labels.get("select", [])
        if e["select_decl"]:
            if [norm(g).replace(" :", ":").replace(": ", ":") for g in got_sel] != [norm(want_sel).replace(" :", ":").replace(": ", ":")]:
                rep.violation("C20:label-select", "%s edge %d: select label %r, document has %r" % (tn, i, got_sel, want_sel), c)
        elif got_sel:
            rep.violation("C20:label-select-invented", "%s edge %d: select label %r for an edge without select" % (tn, i, got_sel), c)


def run(rep, tier, seed):
    rng = random.Random(seed * 1000003 + 20)
    quick = tier == "quick"
    n = 4000 if quick else 30000
    mg = GM.ModelGen(rng, 4, 7, 14)
    cases = []
    for i in range(n):
        m = mg.model(branchpoints=(rng.random() < 0.4), rich_edges=True)
        # XML-special characters in every text the writer emits: '<', '>', '&' occur in guards/invariants naturally
        cases.append((m, Case("w%d" % i, [Step("parse_doc", 0, "xml_buffer", 1, 1, GM.render_xml(m, rng)), Step("write_xml", 0)], timeout=60)))
    for name, xml in workloads.test_models():
        if "lsc" in name:
            continue
        cases.append((None, Case("t_" + name.replace(".", "_"), [Step("parse_doc", 0, "xml_buffer", 1, 1, xml), Step("write_xml", 0)], timeout=60)))
    # in slices, so that a library that suddenly needs the whole watchdog time for many models is noticed after the
    # first slice instead of after hours; the watchdog itself never decides: models whose writing did not return are
    # run again alone with a generous limit, and only if writing a model of a few kilobytes still does not return then
    # is that reported (the parse of the same model, done in the same child just before, took milliseconds)
    res = {}
    stuck = []
    for k in range(0, len(cases), 400):
        part = [c for _, c in cases[k:k + 400]]
        for c in part:
            c.timeout = 20
        res.update(run_cases(part))
        stuck = [c for _, c in cases[:k + 400] if c.id in res and res[c.id]["status"] == "timeout"]
        if len(stuck) > 12:
            break
    cases = [(m, c) for m, c in cases if c.id in res]
    if stuck:
        again = [Case(c.id + "again", c.steps, timeout=180) for c in stuck[:8]]
        ares = run_cases(again, jobs=4, chunk_size=1)
        for c in again:
            r = ares[c.id]
            if r["status"] == "timeout" and len(r["steps"]) >= 1 and r["steps"][0].get("op") == "parse_doc":
                rep.violation("C20:write-does-not-return", "write_XML_file on an accepted model of %d bytes did not return within 180 s when run "
                              "alone (the parse of the same model finished in the same process)" % len(c.steps[0].args[4]), c)
            elif r["status"] == "timeout":
                rep.inconclusive_case("watchdog during parse")
            elif r["status"] != "ok":
                rep.crash(r, c)
    stats = {"templates": 0, "locations": 0, "edges": 0, "branchpoint_edges": 0, "selects": 0, "self_loops": 0,
             "uncontrollable": 0, "probabilities": 0}
    for m, c in cases:
        r = res[c.id]
        if r["status"] == "timeout":
            rep.inconclusive_case("watchdog (decided by the run alone, see above)") if len(stuck) <= 12 else None
            continue
        if r["status"] != "ok":
            # writing never crashes (reported under this property with the crash key)
            rep.crash(r, c)
            rep.observe(None)
            continue
        sp, sw = r["steps"][0], r["steps"][1]
        if sp.get("exc") or sp["errors"]:
            rep.observe(None)
            continue            # not an accepted model: outside this property
        doc = sp["doc"]
        has_bp = any(t["branchpoints"] for t in doc["templates"])
        rep.observe(("w", c.steps[0].args[4]) if sum(len(t["edges"]) for t in doc["templates"]) else None)
        if sw.get("exc"):
            rep.violation("C20:write-throws:%s%s" % (sw["exc"], "(branchpoint)" if has_bp else ""), "write_XML_file threw %s: %s" % (sw["exc"], sw.get("excmsg")), c)
            continue
        try:
            root = ET.fromstring(sw["content"].encode("latin-1"))
        except ET.ParseError as e:
            rep.violation("C20:not-well-formed", "written file is not well-formed XML: %s" % e, c)
            continue
        tels = root.findall("template")
        tas = [t for t in doc["templates"] if t["is_TA"]]
        if len(tels) != len(tas):
            rep.violation("C20:template-count", "%d template elements for %d TA templates" % (len(tels), len(tas)), c)
            continue
        for t, el in zip(tas, tels):
            nm = el.find("name")
            if nm is None or norm(nm.text) != t["name"]:
                rep.violation("C20:template-name", "template %s written as %r" % (t["name"], None if nm is None else nm.text), c)
            check_template(rep, c, t, el, has_bp)
            stats["templates"] += 1
            stats["locations"] += len(t["locations"])
            stats["edges"] += len(t["edges"])
            for e in t["edges"]:
                stats["branchpoint_edges"] += ("B:" in e["src"]) + ("B:" in e["dst"])
                stats["selects"] += len(e["select_decl"])
                stats["self_loops"] += e["src"] == e["dst"]
                stats["uncontrollable"] += not e["control"]
                stats["probabilities"] += norm(e["prob_str"]) not in TRIVIAL["prob"]
    rep.sample({"model": cases[0][1].steps[0].args[4].decode()[:1200]})
    rep.rule = ("accepted generated models (self loops, parallel edges, several selects, probability weights, "
                "uncontrollable edges, branchpoints, '<' '>' '&' in labels) and the repository's test models parsed, "
                "dumped, written with write_XML_file and the file read back with ElementTree; non-trivial = model has "
                "edges; distinct = distinct model texts")
    rep.extra["objects_compared"] = stats


def replay(data):
    import json
    c = Case.from_json(data["case"])
    r = run_cases([c])[c.id]
    print(json.dumps(r, indent=1)[:12000])
