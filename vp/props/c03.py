"""C03 - printing an expression or query and re-parsing it reproduces the same tree.

Oracle: self-consistency of the library (first parse vs parse of its own printed text); the abstract tree is used
only to shrink a failing case to the smallest construct, which becomes the finding key."""
import random

from .. import exprlab, gen_expr as G, sexpr, xmlgen, queries as Q
from ..runner import Case, Step

ATOMS = ("id", "int", "bool", "dbl")


def classify(r):
    """None if the roundtrip held, else (class, detail)."""
    if "str_exc" in r:
        return "str-throws", r["str_exc"]
    if "str" not in r:
        return None
    if r.get("re_exc"):
        return "reparse-throws", r["re_exc"]
    if r.get("re_nerr"):
        return "reparse-rejected", r.get("re_err0", "")
    first = r.get("tdump", r.get("dump"))
    if "re_dump" not in r:
        return "reparse-empty", ""
    if r["re_dump"] != first:
        return "reparse-differs", "%s -> %s" % (first, r["re_dump"])
    if "re_str_exc" in r:
        return "restr-throws", r["re_str_exc"]
    if r.get("re_str") != r["str"]:
        return "restr-differs", "%r vs %r" % (r["str"], r.get("re_str"))
    return None


def shape(t):
    """Structural key of a (shrunk) abstract tree: kinds with atoms as '_' (doubles as 'D')."""
    k = t[0]
    if k == "dbl":
        return "D"
    if k in ATOMS:
        return "_"
    if k == "plus":
        return shape(t[1])
    kids = subtrees(t)
    kd = G.kind_of(t) if k != "imply" else "IMPLY"
    if kd in sexpr.ASSIGN_KINDS:
        kd = "ASSIGNOP"
    if k == "builtin":
        kd = "BUILTIN%d" % len(t[2])
    if k == "bin" and G.BIN[t[1]][0] in (12, 11, 10, 8, 7):
        kd = {12: "MULOP", 11: "ADDOP", 10: "SHIFTOP", 8: "RELOP", 7: "EQOP"}[G.BIN[t[1]][0]]
    if k == "un":
        kd = {"PRE_INCREMENT": "PREOP", "PRE_DECREMENT": "PREOP", "POST_INCREMENT": "POSTOP",
              "POST_DECREMENT": "POSTOP"}.get(t[1], t[1])
    if k == "quant":
        kd = "QUANT"
    return kd + "(" + ",".join(shape(c) for c in kids) + ")" if kids else kd


def subtrees(t):
    k = t[0]
    if k in ATOMS:
        return []
    if k == "plus":
        return [t[1]]
    if k == "un":
        return [t[2]]
    if k in ("bin", "assign"):
        return [t[2], t[3]]
    if k == "imply":
        return [t[1], t[2]]
    if k == "ite":
        return [t[1], t[2], t[3]]
    if k == "idx":
        return [t[1], t[2]]
    if k == "dot":
        return [t[1]]
    if k in ("call", "builtin"):
        return list(t[2])
    if k == "quant":
        return [t[4]]
    return []


def replace_child(t, i, new):
    k = t[0]
    if k == "plus":
        return ("plus", new)
    if k == "un":
        return ("un", t[1], new)
    if k in ("bin", "assign"):
        ops = [t[2], t[3]]
        ops[i] = new
        return (k, t[1], ops[0], ops[1])
    if k == "imply":
        ops = [t[1], t[2]]
        ops[i] = new
        return ("imply", ops[0], ops[1])
    if k == "ite":
        ops = [t[1], t[2], t[3]]
        ops[i] = new
        return ("ite",) + tuple(ops)
    if k == "idx":
        ops = [t[1], t[2]]
        ops[i] = new
        return ("idx", ops[0], ops[1])
    if k == "dot":
        return ("dot", new, t[2])
    if k in ("call", "builtin"):
        ops = list(t[2])
        ops[i] = new
        return (k, t[1], ops)
    if k == "quant":
        return ("quant", t[1], t[2], t[3], new)
    raise ValueError(t)


class Lab:
    """Runs single trees through the roundtrip (typed) and remembers verdicts."""

    def __init__(self, model, flags):
        self.model = model
        self.flags = flags
        self.cache = {}

    def verdicts(self, trees):
        todo = [t for t in trees if repr(t) not in self.cache]
        if todo:
            texts = [G.render_min(t) for t in todo]
            res = exprlab.run_exprs(texts, self.model, flags=self.flags, batch=30, tag="s")
            for t, (r, case, crash) in zip(todo, res):
                if crash is not None:
                    self.cache[repr(t)] = ("crash", "")
                elif r.get("nerr") or r.get("nerr_tc") or r.get("exc") or "dump" not in r:
                    self.cache[repr(t)] = ("invalid", "")     # not an accepted expression: outside the quantifier
                else:
                    self.cache[repr(t)] = classify(r)
        return [self.cache[repr(t)] for t in trees]

    def shrink(self, tree, cls):
        """Smallest sub-structure of tree that still fails with the same class."""
        cur = tree
        for _ in range(40):
            kids = subtrees(cur)
            if not kids:
                break
            # 1. does a child alone fail the same way?
            vs = self.verdicts(kids)
            moved = False
            for c, v in zip(kids, vs):
                if v and v[0] == cls:
                    cur = c
                    moved = True
                    break
            if moved:
                continue
            # 2. replace non-atom children by atoms of a compatible sort while the failure persists
            changed = False
            for i, c in enumerate(kids):
                if c[0] in ATOMS:
                    continue
                for atom in (("id", "i"), ("id", "b"), ("id", "d"), ("id", "s"), ("id", "a"), ("dbl", "0.1")):
                    cand = replace_child(cur, i, atom)
                    v = self.verdicts([cand])[0]
                    if v and v[0] == cls:
                        cur = cand
                        changed = True
                        break
                if changed:
                    break
            if not changed:
                break
        return cur


def run(rep, tier, seed):
    rng = random.Random(seed * 1000003 + 3)
    quick = tier == "quick"
    model = xmlgen.simple_model(decl=G.PRELUDE)
    tg = G.TypedGen(rng)
    ug = G.Gen(rng)
    items = []
    n_typed = 30000 if quick else 500000
    for _ in range(n_typed):
        items.append(("typed", tg.any(rng.choice([1, 2, 2, 3, 3, 4, 5]))))
    # systematic typed pairs: every int/bool/double operator with every operator as operand is covered by the random
    # part only statistically, so add depth-2 typed shapes explicitly
    for _ in range(1500 if quick else 12000):
        items.append(("typed", tg.int(2)))
        items.append(("typed", tg.bool(2)))
        items.append(("typed", tg.dbl(2)))
    # floating point constants that need all 17 significant digits (most doubles do), alone and inside expressions
    import struct
    for _ in range(400 if quick else 6000):
        bits = rng.getrandbits(64)
        x = struct.unpack(">d", struct.pack(">Q", bits))[0]
        if x != x or x in (float("inf"), float("-inf")):
            continue
        x = abs(x)
        if rng.random() < 0.5:
            x = rng.random() * 10 ** rng.randint(-8, 8)
        lit = ("dbl", repr(x) if "e" in repr(x) or "." in repr(x) else repr(x) + ".0")
        if "inf" in lit[1] or "nan" in lit[1]:
            continue
        items.append(("typed", rng.choice([lit, ("bin", "PLUS", ("id", "d"), lit), ("builtin", "FABS_F", [lit]),
                                           ("bin", "LT", lit, ("id", "e")), ("ite", ("id", "b"), lit, ("id", "d"))])))
    for lit in ["0.30000000000000004", "1.0000000000000002", "2.2250738585072014e-308", "5e-324", "1.7976931348623157e308",
                "0.1", "0.2", "0.7", "123456789.12345679", "9007199254740993.0", "4.35", "2.675", "1e23", "8.41e21"]:
        items.append(("typed", ("dbl", lit)))
        items.append(("typed", ("bin", "MULT", ("id", "d"), ("dbl", lit))))
    # short mantissas with extreme exponents: printed in exponent notation without a '.', (1e-05, 2e+20), written
    # here with and without a fraction / exponent
    for m in (1, 2, 3, 5, 7, 9, 12, 25):
        for ex in list(range(-12, -3)) + list(range(14, 24)) + [-300, -100, 100, 300]:
            forms = ["%de%d" % (m, ex), "%d.0e%d" % (m, ex)]
            if -12 <= ex < 0:
                forms.append("0." + "0" * (-ex - 1) + str(m))
            if 0 < ex <= 23:
                forms.append(str(m) + "0" * ex + ".0")
            lit = ("dbl", rng.choice(forms))
            items.append(("typed", rng.choice([lit, ("bin", "PLUS", ("id", "d"), lit), ("bin", "LT", lit, ("id", "e")),
                                               ("un", "UNARY_MINUS", lit)])))
    # the most negative integer and signs in front of signs
    for t in [("un", "UNARY_MINUS", ("int", "-2147483648")), ("int", "-2147483648"),
              ("bin", "MINUS", ("id", "i"), ("int", "-2147483648")), ("un", "UNARY_MINUS", ("un", "UNARY_MINUS", ("int", "3"))),
              ("un", "UNARY_MINUS", ("un", "PRE_DECREMENT", ("id", "i"))), ("bin", "MINUS", ("id", "i"), ("un", "UNARY_MINUS", ("id", "j"))),
              ("bin", "MINUS", ("id", "i"), ("un", "PRE_DECREMENT", ("id", "j"))), ("bin", "PLUS", ("id", "i"), ("un", "PRE_INCREMENT", ("id", "j"))),
              ("bin", "PLUS", ("un", "POST_INCREMENT", ("id", "i")), ("id", "j")), ("un", "UNARY_MINUS", ("dbl", "0.5")),
              ("bin", "MINUS", ("id", "d"), ("un", "UNARY_MINUS", ("dbl", "1e-05"))), ("un", "NOT", ("un", "NOT", ("id", "b")))]:
        items.append(("typed", t))
        items.append(("raw", t))
    # both nestings of every pair of binary operators of one precedence level (the printer must parenthesise exactly
    # the nesting the grammar's associativity does not give)
    by_level = {}
    for k, (lv, _) in G.BIN.items():
        by_level.setdefault(lv, []).append(k)
    for lv, ks in sorted(by_level.items()):
        for k1 in ks:
            for k2 in ks:
                for a, b, c in ((("id", "i"), ("id", "j"), ("id", "k")), (("id", "d"), ("id", "e"), ("dbl", "2.5")), (("int", "2"), ("id", "i"), ("int", "3"))):
                    items.append(("raw", ("bin", k2, ("bin", k1, a, b), c)))
                    items.append(("raw", ("bin", k1, a, ("bin", k2, b, c))))
                    items.append(("raw", ("bin", k1, ("bin", k2, ("bin", k1, a, b), c), ("bin", k2, a, c))))
    # untyped trees: accepted by the expression parser (no diagnostics) though not necessarily well typed
    for _ in range(15000 if quick else 250000):
        items.append(("raw", ug.tree(rng.choice([2, 3, 4]))))
    texts = [G.render_min(t, rng) for _, t in items]
    typed_idx = [i for i, (k, _) in enumerate(items) if k == "typed"]
    raw_idx = [i for i, (k, _) in enumerate(items) if k == "raw"]
    res = [None] * len(items)
    for idxs, flags in ((typed_idx, "tr"), (raw_idx, "r")):
        out = exprlab.run_exprs([texts[i] for i in idxs], model, flags=flags, batch=50, tag="c3" + flags)
        for i, o in zip(idxs, out):
            res[i] = o
    labs = {"typed": Lab(model, "tr"), "raw": Lab(model, "r")}
    failing = {}
    kinds_seen = set()
    for i, ((kind, tree), text) in enumerate(zip(items, texts)):
        r, case, crash = res[i]
        single = Case("replay", [case.steps[0], Step("exprs", 0, "global", 1, "S_EXPRESSION",
                                                     "tr" if kind == "typed" else "r", text)])
        if crash is not None:
            rep.crash(crash, single)
            rep.observe(None)
            continue
        if r.get("nerr") or r.get("nerr_tc") or r.get("exc") or "dump" not in r:
            rep.observe(None)       # not accepted: outside the property's quantifier
            continue
        v = classify(r)
        d = r.get("tdump", r["dump"])
        sexpr.triples(sexpr.parse(d), kinds_seen)
        rep.observe(d if sexpr.count_nodes(sexpr.parse(d)) >= 2 else None)
        if v is None:
            # free cross-check feeding C19: equal() must agree when no binder occurs
            if r.get("re_equal") is False and "(bind " not in d:
                rep.violation("C03:equal-disagrees-with-dump", "equal() false for dump-identical trees: " + d, single)
            continue
        group = (kind, v[0], shape(tree) if sexpr.count_nodes(sexpr.parse(d)) <= 4 else G.kind_of(tree))
        failing.setdefault(group, []).append((len(text), tree, text, v, single))
    # shrink one representative per group (bounded), key = class + shape of the shrunk tree
    budget = 60 if quick else 300
    for group, lst in sorted(failing.items(), key=lambda kv: -len(kv[1])):
        lst.sort(key=lambda x: x[0])
        _, tree, text, v, single = lst[0]
        kind = group[0]
        if budget > 0:
            small = labs[kind].shrink(tree, v[0])
            budget -= 1
        else:
            small = tree
        key = "C03:%s:%s" % (v[0], shape(small))
        small_text = G.render_min(small)
        rep.violation(key, "%s: %r printed/re-parsed wrongly (%s); smallest form %r; first seen in %r" % (
            v[0], small_text, v[1][:300], small_text, text),
            Case("replay", [single.steps[0], Step("exprs", 0, "global", 1, "S_EXPRESSION",
                                                  "tr" if kind == "typed" else "r", small_text)]))
        rep.violations[key]["count"] += len(lst) - 1
    # ---- queries
    qmodel = Q.MODEL
    qitems = Q.catalogue(rng, 6000 if quick else 120000)
    qres = exprlab.run_queries([q for _, q in qitems], qmodel, flags="w", batch=25, tag="q3")
    forms_ok = {}
    for (form, text), (r, case, crash) in zip(qitems, qres):
        single = Case("replay", [case.steps[0], Step("query", 0, "w", text)])
        if crash is not None:
            rep.crash(crash, single)
            rep.observe(None)
            continue
        if r.get("exc") or r.get("nerr") or not r.get("props"):
            rep.observe(None)
            rep.extra.setdefault("query_forms_not_accepted", {}).setdefault(form, (r.get("errors") or [r.get("exc")])[:1])
            continue
        p = r["props"][-1]
        forms_ok[form] = forms_ok.get(form, 0) + 1
        if "raw_exc" in r or not r.get("raw"):
            rep.inconclusive_case("raw query builder failed: %s" % r.get("raw_exc"))
            continue
        rep.observe("q:" + r["raw"][-1]["dump"])
        for q in r["raw"]:
            if "str_exc" in q:
                rep.violation("C03:query:str-throws:%s" % form, "printing query %r throws %s" % (text, q["str_exc"]), single)
            elif q.get("re_exc"):
                rep.violation("C03:query:reparse-throws:%s" % form, "query %r printed as %r: re-parse throws %s" % (
                    text, q["str"], q["re_exc"]), single)
            elif q.get("re_nerr") or not q.get("re_n"):
                rep.violation("C03:query:reparse-rejected:%s" % form, "query %r printed as %r which is rejected: %s" % (
                    text, q["str"], q.get("re_err0")), single)
            elif q.get("re_dump") != q["dump"]:
                rep.violation("C03:query:reparse-differs:%s" % form, "query %r printed as %r re-parses to %s instead of %s" % (
                    text, q["str"], q.get("re_dump"), q["dump"]), single)
            elif "re_str_exc" in q or q.get("re_str") != q["str"]:
                rep.violation("C03:query:restr-differs:%s" % form, "query %r: %r then %r" % (text, q["str"], q.get("re_str")), single)
    rep.sample({"expression": texts[0], "printed": (res[0][0] or {}).get("str")})
    rep.sample({"query": qitems[0][1]})
    rep.rule = ("typed expressions (accepted by parser and type checker against a fixed prelude), parser-accepted raw "
                "expressions and the query catalogue; each printed with str(), re-parsed in the same scope, dumps and "
                "second str() compared; non-trivial = accepted and >= 2 nodes; distinct = distinct first-parse dumps")
    rep.extra["operator_triples_in_roundtripped_trees"] = len(kinds_seen)
    rep.extra["query_forms_roundtripped"] = forms_ok
    rep.extra["failing_groups"] = len(failing)


def replay(data):
    from ..runner import run_cases
    import json
    c = Case.from_json(data["case"])
    r = run_cases([c])[c.id]
    print(json.dumps(r, indent=1)[:8000])
