"""C11 - expressions that must be side-effect free are rejected if they can write state.

Oracle by construction: every case is a pair of models differing only in the write form; the variant with the write
must be rejected and its twin accepted."""
import random

from .. import accept, xmlgen

BASE_DECL = """
const int N = 2;
int g = 0;
int h = 0;
int a[3];
typedef struct { int f; int k; } S;
S s;
clock x;
chan c;
chan ca[4];
"""
# functions: writers (directly, through chains, inside every statement form, through reference parameters) and readers
FUNCS = """
int rval2(int v) { return v + 1; }
int w0() { g = 1; return 1; }
int w1() { return w0(); }
int w2() { return w1() + 1; }
int w3() { int t; t = w2(); return t; }
int w4() { return w3(); }
int wplus() { g += 2; return 1; }
int winc() { g++; return 1; }
int wdec() { --g; return 1; }
int warr() { a[1] = 2; return 1; }
int wfield() { s.f = 3; return 1; }
int wif() { if (h > 0) { g = 1; } return 1; }
int welse() { if (h > 0) { return 1; } else { g = 1; } return 1; }
int wfor_body() { int i; for (i = 0; i < 2; i++) { g = i; } return 1; }
int wfor_init() { int i; for (g = 0; i < 2; i++) { } return 1; }
int wfor_step() { int i; for (i = 0; i < 2; g++) { i++; } return 1; }
int wfor_cond() { int i; for (i = 0; (g = 1) < 0; i++) { } return 1; }
int wwhile() { int i = 0; while (i < 2) { g = i; i++; } return 1; }
int wwhile_cond() { while ((g = 0) > 1) { } return 1; }
int wdo() { int i = 0; do { g = i; i++; } while (i < 2); return 1; }
int witer() { for (q : int[0,1]) { g = q; } return 1; }
int wblock() { { { g = 1; } } return 1; }
int wret() { return g = 1; }
int wiif() { return h > 0 ? (g = 1) : 2; }
int wcomma() { int i; for (i = 0, g = 1; i < 1; i++) { } return 1; }
int wdo_cond() { int i = 0; do { i++; } while (g++ < 3); return 1; }
int wdo_cond_call() { int i = 0; do { i++; } while (w0() < 0); return 1; }
int wwhile_cond_call() { while (w0() < 0) { } return 1; }
int welseif() { if (h > 0) { return 1; } else if (h < 0) { return 2; } else { g = 1; } return 1; }
int wnested_loops() { int i; for (i = 0; i < 2; i++) { for (q : int[0,1]) { while (h > q) { do { g = 1; } while (false); } } } return 1; }
int wcl_else() { int l; (h > 0 ? l : g) = 1; return 1; }
int wcl_then() { int l; (h > 0 ? g : l) = 1; return 1; }
int wcl_inc() { int l; (h > 0 ? l : g)++; return 1; }
int wcl_plus() { int l; (h > 0 ? l : g) += 2; return 1; }
int wcl_arr() { int l[3]; (h > 0 ? l[1] : a[1]) = 2; return 1; }
int windex() { return a[g++ % 3]; }
int wargument() { return rval2(g++); }
int wcond() { return (g++ > 0) ? 1 : 2; }
int wcallarg() { return rval2(w0()); }
int wlhs_index() { int t[3]; t[g++ % 3] = 1; return 1; }
int wlhs_index_assign() { int t[3]; t[(g = 1)] += 1; return 1; }
int wlhs_index_call() { int t[3]; t[w0()] = 1; return t[0]; }
int wlhs_index_incr() { int t[3]; t[g++ % 3]++; return 1; }
int wlhs_cond() { int l; int l2; ((g++ > 0) ? l : l2) = 1; return 1; }
int wshadow_param(int g) { w0(); return g; }
int wshadow_local() { int g; g = 2; return w0() + g; }
int rshadow_param(int g) { g = 3; return g; }
void setarr(int &r[3]) { r[0] = 1; }
int wrefarr() { setarr(a); return 1; }
void setS(S &r) { r.f = 1; }
int wrefstruct() { setS(s); return 1; }
int rcl_local() { int l; int l2; (h > 0 ? l : l2) = 1; return l; }
int rlocalarr() { int l[3]; setarr(l); return l[0]; }
void setref(int &r) { r = 1; }
int wshadow_ref(int h) { setref(g); return h; }
int wcl_ref() { int l; setref(h > 0 ? l : g); return 1; }
int wref() { setref(g); return 1; }
void fwd(int &r) { setref(r); }
int wfwd() { fwd(g); return 1; }
int refarg(int &r) { r = 5; return 1; }
int rlocal() { int l = 0; l = l + 1; l++; return l; }
int rval(int v) { v = v + 1; return v; }
int rcref(const int &r) { return r + 1; }
int rf() { return g + h; }
int rchain() { return rf() + rlocal(); }
int pure() { return N + 1; }
int plocal() { int l = N; l++; return l; }
"""
WRITER_CALLS = ["w0()", "w1()", "w2()", "w3()", "w4()", "wplus()", "winc()", "wdec()", "warr()", "wfield()", "wif()", "welse()",
                "wfor_body()", "wfor_init()", "wfor_step()", "wfor_cond()", "wwhile()", "wwhile_cond()", "wdo()", "witer()",
                "wblock()", "wret()", "wiif()", "wcomma()", "wref()", "wfwd()", "refarg(g)", "refarg(a[0])", "refarg(s.f)",
                "wdo_cond()", "wdo_cond_call()", "wwhile_cond_call()", "welseif()", "wnested_loops()", "wcl_else()", "wcl_then()",
                "wcl_inc()", "wcl_plus()", "wcl_arr()", "wcl_ref()", "windex()", "wargument()", "wcond()", "wcallarg()", "wrefarr()",
                "wrefstruct()", "refarg(h > 0 ? h : g)", "wlhs_index()", "wlhs_index_assign()", "wlhs_index_call()", "wlhs_index_incr()",
                "wlhs_cond()", "wshadow_param(1)", "wshadow_local()", "wshadow_ref(2)"]
DIRECT_WRITES = ["(g = 1)", "(g := 1)", "(g += 1)", "(g -= 1)", "(g *= 2)", "(g /= 2)", "(g %= 2)", "(g |= 1)", "(g &= 1)", "(g ^= 1)",
                 "(g <<= 1)", "(g >>= 1)", "g++", "g--", "++g", "--g", "(a[0] = 1)", "a[1]++", "(s.f = 2)", "++s.k", "(h = g = 1)"]
READ_TWINS = ["rshadow_param(2)", "rcl_local()", "rlocalarr()", "g", "rf()", "rlocal()", "rval(3)", "rcref(g)", "rchain()", "a[0]", "s.f", "g + h"]
CONST_TWINS = ["N", "pure()", "plocal()", "N + 1", "rval(N)"]
# the write form nested inside a larger expression of the context
WRAPPERS = ["%s", "N + %s", "(%s) * 2", "pure() + %s", "(N > 1 ? %s : 1)", "abs(%s)", "rval(%s)", "(%s <? 7)", "-(%s)"]

# contexts: name -> (needs compile-time value?, builder(expr) -> (model, queries))
def _m(decl_extra="", tdecl="", labels_loc=None, edge_labels=None, system=None, params="", bp=False):
    locs = [("id0", "L0", labels_loc or [], None), ("id1", "L1", [], None)]
    edges = [("id0", "id1", edge_labels or [])]
    return xmlgen.simple_model(decl=BASE_DECL + FUNCS + decl_extra, tdecl=tdecl, locations=locs, edges=edges,
                               system=system, params=params)


CONTEXTS = {
    "guard": (False, lambda e: _m(edge_labels=[("guard", "%s > 0" % e)])),
    "guard-conjunct": (False, lambda e: _m(edge_labels=[("guard", "x >= 1 && h < 5 && %s >= 0" % e)])),
    "invariant": (False, lambda e: _m(labels_loc=[("invariant", "x <= 5 && %s >= 0" % e)])),
    "sync-index": (False, lambda e: _m(edge_labels=[("synchronisation", "ca[%s]!" % e)])),
    "select-bound": (True, lambda e: _m(edge_labels=[("select", "k : int[0, %s]" % e)])),
    "global-init": (True, lambda e: _m(decl_extra="int v = %s;" % e)),
    "local-init": (True, lambda e: _m(tdecl="int lv = %s;" % e)),
    "function-local-init": (False, lambda e: _m(decl_extra="int fl() { int l = %s; return l; }" % e)),
    "array-size": (True, lambda e: _m(decl_extra="int arr[%s + 1];" % e)),
    "range-bound": (True, lambda e: _m(decl_extra="int[0, %s + 1] rb;" % e)),
    "instantiation-arg": (True, lambda e: _m(params="const int p", system="P1 = P(%s);\nsystem P1;" % e)),
    "partial-instantiation-arg-last": (True, lambda e: _m(params="const int[0,1] k, int &r, const int p", system="Q(const int[0,1] i) = P(i, g, %s);\nsystem Q;" % e)),
    "partial-instantiation-arg-middle": (True, lambda e: _m(params="const int[0,1] k, const int p, int &r", system="Q(const int[0,1] i) = P(i, %s, g);\nsystem Q;" % e)),
    "partial-instantiation-two-free-arg-last": (True, lambda e: _m(params="const int[0,1] k, const int[0,1] k2, const int p",
                                                                    system="Q(const int[0,1] i, const int[0,1] j) = P(i, j, %s);\nsystem Q;" % e)),
    "partial-instantiation-chain-arg": (True, lambda e: _m(params="const int[0,1] k, const int p, const int p2",
                                                            system="Q(const int[0,1] i, const int y) = P(i, y, %s);\nQ2(const int[0,1] i2) = Q(i2, 3);\nsystem Q2;" % e)),
    "forall-body": (False, lambda e: _m(edge_labels=[("guard", "forall (q : int[0,1]) %s >= q" % e)])),
    "exists-body": (False, lambda e: _m(edge_labels=[("guard", "exists (q : int[0,1]) %s == q" % e)])),
    "sum-body": (False, lambda e: _m(edge_labels=[("guard", "(sum (q : int[0,1]) %s) >= 0" % e)])),
    "assert": (False, lambda e: _m(decl_extra="void af() { assert(%s >= 0); }" % e)),
    # quantified bodies are side-effect free even where the surrounding context may write
    "sum-body-in-update": (False, lambda e: _m(edge_labels=[("assignment", "h = sum (q : int[0,1]) %s" % e)])),
    "forall-body-in-update": (False, lambda e: _m(decl_extra="bool qb;", edge_labels=[("assignment", "qb = forall (q : int[0,1]) %s >= q" % e)])),
    "exists-body-in-update": (False, lambda e: _m(decl_extra="bool qb;", edge_labels=[("assignment", "qb = exists (q : int[0,1]) %s == q" % e)])),
    "sum-body-in-function": (False, lambda e: _m(decl_extra="int sf() { int t; t = sum (q : int[0,1]) %s; return t; }" % e)),
    "forall-body-in-function": (False, lambda e: _m(decl_extra="bool ff() { return forall (q : int[0,1]) %s >= q; }" % e)),
    "sum-body-in-function-return": (False, lambda e: _m(decl_extra="int sf2() { return sum (q : int[0,2]) (%s + q); }" % e)),
    "probability": (False, None),   # built specially (branchpoint)
}
# writers and readers that are local to the template (they write the template's own variables)
TLOCAL = "int tl; int tw() { tl = 1; return 1; } int tw2() { return tw(); } int twg() { g = 1; return 1; } int tr() { return tl + g; }"
TL_CONTEXTS = {
    "template-function-in-guard": lambda e: _m(tdecl=TLOCAL, edge_labels=[("guard", "%s > 0" % e)]),
    "template-function-in-invariant": lambda e: _m(tdecl=TLOCAL, labels_loc=[("invariant", "x <= 5 && %s >= 0" % e)]),
    "template-function-in-sync-index": lambda e: _m(tdecl=TLOCAL, edge_labels=[("synchronisation", "ca[%s]!" % e)]),
    "template-function-in-local-init": lambda e: _m(tdecl=TLOCAL + " int after = %s;" % e),
}
TL_WRITES = ["tw()", "tw2()", "twg()", "(tl = 1)", "tl++"]
TL_READS = ["tr()", "tl"]


def prob_model(e):
    decl = BASE_DECL + FUNCS
    return (xmlgen.HEADER + "<nta><declaration>" + xmlgen.esc(decl) + "</declaration><template><name>P</name>"
            '<location id="id0"><name>L0</name></location><location id="id1"><name>L1</name></location>'
            '<branchpoint id="b0"/><init ref="id0"/>'
            '<transition><source ref="id0"/><target ref="b0"/></transition>'
            '<transition><source ref="b0"/><target ref="id1"/><label kind="probability">' + xmlgen.esc("%s + 1" % e) + "</label></transition>"
            '<transition><source ref="b0"/><target ref="id0"/><label kind="probability">2</label></transition>'
            "</template><system>system P;</system></nta>")


QUERY_CONTEXTS = {
    "query-predicate": lambda e: "E<> %s > 0" % e,
    "query-AG": lambda e: "A[] %s >= 0" % e,
    "query-sup": lambda e: "sup: %s" % e,
    "query-bounds-pred": lambda e: "bounds{%s > 0}: h" % e,
    "query-simulate": lambda e: "simulate [<=10] {%s}" % e,
    "query-pr": lambda e: "Pr[<=10](<> %s > 0)" % e,
    "query-E": lambda e: "E[<=10;10](max: %s)" % e,
    "query-leadsto": lambda e: "h > 0 --> %s > 0" % e,
    "query-bound": lambda e: "Pr[<=%s + 10](<> h > 0)" % e,
}
QMODEL = xmlgen.simple_model(decl=BASE_DECL.replace("chan c;", "broadcast chan c;").replace("chan ca[4];", "broadcast chan ca[4];") + FUNCS)


def run(rep, tier, seed):
    rep.level = "fault_enumeration"
    rng = random.Random(seed * 1000003 + 11)
    quick = tier == "quick"
    items = []        # (context, form, is_write, model)
    for ctx, (ct, build) in CONTEXTS.items():
        b = build if build else prob_model
        writes = DIRECT_WRITES + WRITER_CALLS
        twins = CONST_TWINS if ct else READ_TWINS + CONST_TWINS
        wraps = WRAPPERS if not quick else [WRAPPERS[0], rng.choice(WRAPPERS[1:])]
        for wr in wraps:
            for w in writes:
                items.append((ctx, w, True, b(wr % w)))
            for t in twins:
                items.append((ctx, t, False, b(wr % t)))
    for ctx, b in TL_CONTEXTS.items():
        for w in TL_WRITES:
            items.append((ctx, w, True, b(w)))
        for t in TL_READS:
            if ctx.endswith("local-init") and t != "tr()":
                pass
            if not ctx.endswith("local-init"):
                items.append((ctx, t, False, b(t)))
    vs = accept.verdicts([m for _, _, _, m in items], tag="c11")
    accepted_controls = 0
    for (ctx, form, is_write, _), v in zip(items, vs):
        if v["crash"] is not None:
            rep.crash(v["crash"], v["case"])
            rep.observe(None)
            continue
        rep.observe((ctx, form))
        if is_write and v["accepted"]:
            rep.violation("C11:write-accepted:%s:%s" % (ctx, form.split("(")[0] if form[0].isalpha() else "direct"),
                          "context %s accepts %r, which can modify a variable" % (ctx, form), v["case"])
        if not is_write:
            if v["accepted"]:
                accepted_controls += 1
            else:
                rep.violation("C11:pure-twin-rejected:%s:%s" % (ctx, form.split("(")[0]),
                              "context %s rejects the side-effect free twin %r: %s" % (ctx, form, v["errors"][:2]), v["case"])
    # queries
    qitems = []
    for qn, qb in QUERY_CONTEXTS.items():
        writes = DIRECT_WRITES + WRITER_CALLS
        twins = READ_TWINS + CONST_TWINS if qn != "query-bound" else CONST_TWINS
        for w in writes:
            qitems.append((qn, w, True, qb(w)))
        for t in twins:
            qitems.append((qn, t, False, qb(t)))
    qmodels = [QMODEL] * len(qitems)
    # process-qualified calls of template-local functions
    tlm = xmlgen.simple_model(decl=BASE_DECL.replace("chan c;", "broadcast chan c;").replace("chan ca[4];", "broadcast chan ca[4];") + FUNCS,
                              tdecl=TLOCAL, system="P1 = P();\nsystem P1;")
    for qn, qb in (("query-predicate", QUERY_CONTEXTS["query-predicate"]), ("query-sup", QUERY_CONTEXTS["query-sup"]),
                   ("query-pr", QUERY_CONTEXTS["query-pr"])):
        for w in ("P1.tw()", "P1.tw2()", "P1.twg()", "(P1.tl = 1)", "P1.tl++"):
            qitems.append((qn + "/process-qualified", w, True, qb(w)))
            qmodels.append(tlm)
        for t in ("P1.tr()", "P1.tl"):
            qitems.append((qn + "/process-qualified", t, False, qb(t)))
            qmodels.append(tlm)
    # ... and through a member of a process set (template with a free parameter on the system line)
    psm = xmlgen.simple_model(decl=BASE_DECL.replace("chan c;", "broadcast chan c;").replace("chan ca[4];", "broadcast chan ca[4];") + FUNCS,
                              tdecl=TLOCAL, params="const int[0,1] pid", system="system P;")
    for qn, qb in (("query-predicate", QUERY_CONTEXTS["query-predicate"]), ("query-AG", QUERY_CONTEXTS["query-AG"])):
        for w in ("P(0).tw()", "P(1).tw2()", "P(0).twg()", "(forall (qi : int[0,1]) P(qi).tw() > 0 ? 1 : 0)", "(P(0).tl = 1)"):
            qitems.append((qn + "/process-set-member", w, True, qb(w)))
            qmodels.append(psm)
        for t in ("P(0).tr()", "P(1).tl"):
            qitems.append((qn + "/process-set-member", t, False, qb(t)))
            qmodels.append(psm)
    qres = accept.with_queries([(mm, [q]) for mm, (_, _, _, q) in zip(qmodels, qitems)], tag="c11q")
    for (qn, form, is_write, q), r in zip(qitems, qres):
        if r["crash"] is not None:
            rep.crash(r["crash"], r["case"])
            rep.observe(None)
            continue
        if not r["model_ok"]:
            rep.inconclusive_case("query model rejected: %s" % r["model_errors"][:1])
            continue
        v = r["queries"][0]
        rep.observe((qn, form))
        if is_write and v["accepted"]:
            rep.violation("C11:write-accepted:%s:%s" % (qn, form.split("(")[0] if form[0].isalpha() else "direct"),
                          "query %r accepted although it can modify a variable" % q, r["case"])
        if not is_write:
            if v["accepted"]:
                accepted_controls += 1
            else:
                rep.violation("C11:pure-twin-rejected:%s:%s" % (qn, form.split("(")[0]),
                              "query %r (side-effect free) rejected: %s %s" % (q, v["errors"], v["exc"]), r["case"])
    rep.sample({"context": items[0][0], "write_form": items[0][1]})
    rep.rule = ("side-effect free contexts (guard, invariant, sync index, select bound, initialisers, array size, range "
                "bound, instantiation argument, quantifier bodies, assert, probability, rate, 9 query positions) x write "
                "forms (all assignment operators, ++/--, element and field writes, writer functions through call chains, "
                "every statement form, reference parameters) with side-effect free twins as controls; distinct = "
                "(context, form) pairs")
    rep.extra["controls_accepted"] = accepted_controls
    rep.extra["contexts"] = len(CONTEXTS) + len(QUERY_CONTEXTS)


def replay(data):
    from ..runner import Case, run_cases
    import json
    c = Case.from_json(data["case"])
    print(json.dumps(run_cases([c])[c.id], indent=1)[:6000])
