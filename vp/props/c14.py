"""C14 - typing of commutative operators and inline-if is symmetric in its operands.

Oracle: metamorphic - the swapped twin of each expression must get the same accept/reject verdict and the same
result type kind."""
import itertools
import random

from .. import accept, exprlab, xmlgen

DECL = """
int i = 1; int j = 2;
int[0,5] bi;
int[-3,3] bj;
const int N = 2;
bool b; bool c;
double d; double e;
clock x; clock y;
hybrid clock hx;
typedef scalar[3] A_t; typedef scalar[3] B_t;
A_t sa1; A_t sa2; B_t sb1;
typedef struct { int f; int k; } S;
typedef struct { int f; int k; } S2;
typedef struct { double f; } S3;
S s1; S s2; S2 t1; S3 u1;
int ia[3]; int ib[3]; int ic[4]; bool ba[3]; double da[3];
chan ch; chan ch2; broadcast chan bc; urgent chan uc;
const double PI = 3.14;
const int cv = 3; const int[0,5] cbi = 2; const int cia[3] = { 1, 2, 3 }; const bool cba[3] = { true, false, true };
const double cd = 2.5; const S cs1 = { 1, 2 }; typedef int[0,5] small_t; small_t tv; small_t tva[3]; int[0,5] bia[3]; meta int mi;
int m2[2][3]; const int cm2[2][3] = { { 1, 2, 3 }, { 4, 5, 6 } }; S sarr[2]; const S csarr[2] = { { 1, 2 }, { 3, 4 } };
void setint(int &r) { r = 1; } void setbint(int[0,5] &r) { r = 1; } void setdbl(double &r) { r = 1.0; }
int as1[A_t]; int as2[A_t]; int bs1[B_t]; bool bas[A_t]; typedef int[-32768,32767] word_t; word_t w1; word_t wa[3]; typedef struct { word_t f; int k; } SW; SW sw1;
typedef struct { int f; } SP; SP sp1; typedef struct { int f; int k; int z; } SL; SL sl1; typedef struct { double f; int k; } SD2; SD2 sd21;
typedef int[0,32767] pos_t; pos_t p1; int[-32768,32767] ew; int[-32768,32767] ewa[3]; typedef scalar[3] C_t; int ia3s[C_t];
int fi() { return 1; }
double fd() { return 1.5; }
bool fb() { return true; }
S fs_() { return s1; }
"""
DECL = DECL.replace("S fs_() { return s1; }\n", "")
POOL = ["1", "0", "i", "i + j", "bi", "bj", "N", "-i", "true", "b", "b && c", "i < j", "1.5", "d", "d * e", "PI", "x", "y", "hx", "x - y",
        "x - 3", "sa1", "sa2", "sb1", "s1", "s2", "t1", "u1", "s1.f", "ia", "ib", "ic", "ba", "da", "ia[1]", "ch", "ch2", "bc", "uc",
        "sp1", "sl1", "sd21", "as1", "as2", "bs1", "bas", "w1", "wa", "sw1", "p1", "ew", "ewa", "ia3s", "wa[1]", "as1[sa1]",
        "cv", "cbi", "cia", "cba", "cd", "cs1", "tv", "tva", "bia", "mi", "m2", "cm2", "sarr", "csarr", "cia[1]", "cs1.f", "m2[1]", "cm2[1]",
        "fi()", "fd()", "fb()", "(b ? i : j)", "(b ? d : e)", "i++", "forall (q : int[0,1]) ia[q] > 0", "sum (q : int[0,1]) ia[q]"]
OPS = ["+", "*", "==", "!=", "&&", "||", "&", "|", "^", "<?", ">?", "and", "or"]

REF_TYPES = {
    # name: (type text, array suffix)
    "int": ("int", ""), "bint": ("int[0,5]", ""), "bint2": ("int[0,6]", ""), "bool": ("bool", ""), "double": ("double", ""),
    "scalarA": ("A_t", ""), "scalarB": ("B_t", ""), "S": ("S", ""), "S2": ("S2", ""), "S3": ("S3", ""),
    "int3": ("int", "[3]"), "int4": ("int", "[4]"), "bool3": ("bool", "[3]"), "scalarA3": ("A_t", "[3]"),
    "intByA": ("int", "[A_t]"), "intByB": ("int", "[B_t]"), "word": ("word_t", ""), "word3": ("word_t", "[3]"), "explicitrange": ("int[-32768,32767]", ""),
    "pos": ("pos_t", ""), "structW": ("SW", ""), "structPrefix": ("SP", ""), "structLonger": ("SL", ""), "structD2": ("SD2", ""),
}
TEMPL_REF_TYPES = dict(REF_TYPES, clock=("clock", ""), chan=("chan", ""), bchan=("broadcast chan", ""), uchan=("urgent chan", ""),
                       hclock=("hybrid clock", ""), chan3=("chan", "[3]"))


def run(rep, tier, seed):
    rng = random.Random(seed * 1000003 + 14)
    model = xmlgen.simple_model(decl=DECL)
    pairs = []
    texts = []
    for op in OPS:
        for a, b_ in itertools.product(POOL, POOL):
            pairs.append(("op:" + op, a, b_))
            texts.append("(%s) %s (%s)" % (a, op, b_))
            texts.append("(%s) %s (%s)" % (b_, op, a))
    if tier != "quick":
        # depth-2 operands: operators, indices, fields, calls and inline-ifs over the pool, sampled
        pool2 = []
        for _ in range(400):
            a, b_ = rng.choice(POOL), rng.choice(POOL)
            pool2.append(rng.choice(["(%s) + (%s)", "(%s) * (%s)", "(%s) && (%s)", "(%s) < (%s)", "(b ? (%s) : (%s))", "(%s) <? (%s)", "-(%s)", "!(%s)",
                                     "(%s)[1]", "(%s).f", "(%s) - (%s)", "(%s) == (%s)", "(%s) & (%s)"]).replace("%s", "{0}", 1).replace("%s", "{1}").format(a, b_))
        for _ in range(40000):
            op = rng.choice(OPS)
            a = rng.choice(pool2)
            b_ = rng.choice(POOL + pool2)
            pairs.append(("op:" + op, a, b_))
            texts.append("(%s) %s (%s)" % (a, op, b_))
            texts.append("(%s) %s (%s)" % (b_, op, a))
    conds = ["b", "i < j", "b && c"]
    for a, b_ in itertools.product(POOL, POOL):
        cnd = rng.choice(conds)
        pairs.append(("inline-if", a, b_))
        texts.append("%s ? (%s) : (%s)" % (cnd, a, b_))
        texts.append("!(%s) ? (%s) : (%s)" % (cnd, b_, a))
    res = exprlab.run_exprs(texts, model, flags="t", batch=80, tag="c14")
    kinds_seen = {}
    for k, (what, a, b_) in enumerate(pairs):
        r1, c1, x1 = res[2 * k]
        r2, c2, x2 = res[2 * k + 1]
        if x1 is not None or x2 is not None:
            rep.crash(x1 or x2, c1 if x1 else c2)
            rep.observe(None)
            continue
        def verdict(r):
            ok = not r.get("nerr") and not r.get("nerr_tc") and r.get("exc") is None and r.get("tc_exc") is None
            return ok, (r.get("btype") if ok else None)
        ok1, t1 = verdict(r1)
        ok2, t2 = verdict(r2)
        rep.observe((what, a, b_) if (ok1 or ok2) else None)
        kinds_seen[t1] = kinds_seen.get(t1, 0) + 1
        from ..runner import Case, Step
        single = Case("replay", [c1.steps[0], Step("exprs", 0, "global", 1, "S_EXPRESSION", "t", texts[2 * k], texts[2 * k + 1])])
        if ok1 != ok2:
            rep.violation("C14:acceptance-asymmetric:%s" % what, "%r is %s but %r is %s (%s)" % (
                texts[2 * k], "accepted" if ok1 else "rejected", texts[2 * k + 1], "accepted" if ok2 else "rejected",
                (r1.get("tc_err0") or r1.get("err0") or r2.get("tc_err0") or r2.get("err0"))), single)
        elif ok1 and t1 != t2:
            rep.violation("C14:type-asymmetric:%s" % what, "%r has type kind %s but %r has %s" % (texts[2 * k], t1, texts[2 * k + 1], t2), single)
    # ---- inline-if as an l-value: assignment target and argument for a reference parameter
    lv_int = ["w1", "wa[0]", "sw1.f", "ew", "i", "j", "cv", "ia[0]", "cia[0]", "s1.f", "cs1.f", "mi", "m2[1][0]", "cm2[1][0]", "sarr[1].k", "csarr[1].k"]
    lv_bint = ["bi", "cbi", "tv", "bia[1]", "tva[0]"]
    lv_dbl = ["d", "e", "cd", "da[0]", "u1.f"]
    ltexts, lpairs = [], []
    for pool, lit, setter in ((lv_int, "1", "setint"), (lv_bint, "1", "setbint"), (lv_dbl, "1.5", "setdbl")):
        for a, b_ in itertools.product(pool, pool):
            for form in ("(%s) = " + lit, "(%s) += " + lit, "(%s)++", setter + "(%s)", "j = (%s)"):
                if form.endswith("++") and pool is lv_dbl or "+=" in form and pool is lv_dbl:
                    continue
                lpairs.append(("inline-if-lvalue:" + form.replace("%s", "X").replace(lit, "L"), a, b_))
                ltexts.append(form % ("b ? %s : %s" % (a, b_)))
                ltexts.append(form % ("!b ? %s : %s" % (b_, a)))
    lres = exprlab.run_exprs(ltexts, model, flags="t", batch=80, tag="c14l")
    for k, (what, a, b_) in enumerate(lpairs):
        r1, c1, x1 = lres[2 * k]
        r2, c2, x2 = lres[2 * k + 1]
        if x1 is not None or x2 is not None:
            rep.crash(x1 or x2, c1 if x1 else c2)
            continue
        ok1 = not r1.get("nerr") and not r1.get("nerr_tc") and r1.get("exc") is None and r1.get("tc_exc") is None
        ok2 = not r2.get("nerr") and not r2.get("nerr_tc") and r2.get("exc") is None and r2.get("tc_exc") is None
        rep.observe((what, a, b_))
        if ok1 != ok2:
            from ..runner import Case, Step
            single = Case("replay", [c1.steps[0], Step("exprs", 0, "global", 1, "S_EXPRESSION", "t", ltexts[2 * k], ltexts[2 * k + 1])])
            rep.violation("C14:acceptance-asymmetric:%s" % what, "%r is %s but %r is %s (%s)" % (
                ltexts[2 * k], "accepted" if ok1 else "rejected", ltexts[2 * k + 1], "accepted" if ok2 else "rejected",
                (r1.get("tc_err0") or r1.get("err0") or r2.get("tc_err0") or r2.get("err0"))), single)
    # ---- reference parameters: function calls
    names = sorted(REF_TYPES)
    decl = DECL + "".join("%s v_%s%s;\n" % (REF_TYPES[n][0], n, REF_TYPES[n][1]) for n in names)
    decl += "".join("void f_%s(%s &p%s) { }\n" % (n, REF_TYPES[n][0], REF_TYPES[n][1]) for n in names)
    decl += "".join("void g_%s(const %s &p%s) { }\n" % (n, REF_TYPES[n][0], REF_TYPES[n][1]) for n in names)
    fm = xmlgen.simple_model(decl=decl)
    ftexts = []
    fpairs = []
    for fn in ("f", "g"):
        for t, u in itertools.product(names, names):
            fpairs.append((fn, t, u))
            ftexts.append("%s_%s(v_%s)" % (fn, t, u))
    fres = exprlab.run_exprs(ftexts, fm, flags="t", batch=80, tag="c14f")
    facc = {}
    for (fn, t, u), (r, c, x) in zip(fpairs, fres):
        if x is not None:
            rep.crash(x, c)
            continue
        facc[(fn, t, u)] = (not r.get("nerr") and not r.get("nerr_tc"), r.get("tc_err0") or r.get("err0"), c)
    for (fn, t, u), (ok, err, c) in sorted(facc.items()):
        from ..runner import Case, Step
        single = Case("replay", [c.steps[0], Step("exprs", 0, "global", 1, "S_EXPRESSION", "t", "%s_%s(v_%s)" % (fn, t, u), "%s_%s(v_%s)" % (fn, u, t))])
        rep.observe(("ref", fn, t, u))
        if t == u and not ok:
            rep.violation("C14:ref-param-rejects-same-type:%s:%s" % ("function" if fn == "f" else "function-const", t),
                          "a variable declared '%s%s' is rejected for a %sreference parameter of exactly that type: %s" % (
                              REF_TYPES[t][0], REF_TYPES[t][1], "const " if fn == "g" else "", err), single)
        # const reference parameters of type 'const int' carry no range (by design they accept every integer range),
        # so (const T &, U) and (const U &, T) compare different pairs of types: symmetry is demanded for plain
        # references only
        INTLIKE = ("int", "bint", "bint2", "word", "pos", "explicitrange")
        if fn == "g" and (fn, u, t) in facc and facc[(fn, u, t)][0] != ok and t < u and not (t.rstrip("0123456789") in INTLIKE and u.rstrip("0123456789") in INTLIKE):
            rep.violation("C14:ref-param-asymmetric:function-const:%s/%s" % (t, u),
                          "g_%s(v_%s) (const %s &) is %s but g_%s(v_%s) (const %s &) is %s" % (t, u, t, "accepted" if ok else "rejected", u, t, u,
                                                                                                   "accepted" if facc[(fn, u, t)][0] else "rejected"), single)
        if fn == "f" and (fn, u, t) in facc and facc[(fn, u, t)][0] != ok and t < u:
            rep.violation("C14:ref-param-asymmetric:%s:%s/%s" % ("function" if fn == "f" else "function-const", t, u),
                          "%s_%s(v_%s) is %s but %s_%s(v_%s) is %s" % (fn, t, u, "accepted" if ok else "rejected", fn, u, t,
                                                                       "accepted" if facc[(fn, u, t)][0] else "rejected"), single)
    # ---- reference parameters: template instantiation
    tnames = sorted(TEMPL_REF_TYPES)
    tdecl = DECL + "".join("%s w_%s%s;\n" % (TEMPL_REF_TYPES[n][0], n, TEMPL_REF_TYPES[n][1]) for n in tnames)
    titems = []
    for t, u in itertools.product(tnames, tnames):
        titems.append((t, u, xmlgen.simple_model(decl=tdecl, params="%s &p%s" % TEMPL_REF_TYPES[t], system="P1 = P(w_%s);\nsystem P1;" % u)))
    tv = accept.verdicts([m for _, _, m in titems], tag="c14t")
    tacc = {}
    for (t, u, _), v in zip(titems, tv):
        if v["crash"] is not None:
            rep.crash(v["crash"], v["case"])
            continue
        tacc[(t, u)] = v
        rep.observe(("tref", t, u))
    for (t, u), v in sorted(tacc.items()):
        if t == u and not v["accepted"]:
            rep.violation("C14:ref-param-rejects-same-type:template:%s" % t, "template parameter '%s &p%s' rejects a variable of exactly "
                          "that type: %s" % (TEMPL_REF_TYPES[t][0], TEMPL_REF_TYPES[t][1], v["errors"][:2]), v["case"])
        both_chan = "chan" in t and "chan" in u     # channels are ordered by capability on purpose (urgent/broadcast)
        if t < u and not both_chan and (u, t) in tacc and tacc[(u, t)]["accepted"] != v["accepted"]:
            rep.violation("C14:ref-param-asymmetric:template:%s/%s" % (t, u), "P(%s &) with a %s argument is %s, P(%s &) with a %s argument is %s" % (
                t, u, "accepted" if v["accepted"] else "rejected", u, t, "accepted" if tacc[(u, t)]["accepted"] else "rejected"), v["case"])
    rep.sample({"pair": texts[:2]})
    rep.rule = ("all ordered pairs of a %d-expression operand pool (int, bounded int, bool, double, clock, hybrid clock, "
                "clock difference, scalars of two sets, three struct types, arrays, channels, function results, inline-"
                "ifs, quantifiers) under 13 commutative operator spellings and inline-if with negated condition; all "
                "ordered pairs of %d types as (reference parameter, argument) for functions, const-reference functions "
                "and templates; non-trivial = at least one order accepted; distinct = (operator, a, b)" % (len(POOL), len(TEMPL_REF_TYPES)))
    rep.extra["result_type_kinds_seen"] = kinds_seen
    rep.exhaustive = False


def replay(data):
    from ..runner import Case, run_cases
    import json
    c = Case.from_json(data["case"])
    print(json.dumps(run_cases([c])[c.id], indent=1)[:6000])
