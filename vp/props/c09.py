"""C09 - accept/reject verdicts are invariant under meaning-preserving rewrites.

Oracle: metamorphic.  Every model (accepted or with an injected error) is rendered again (a) with redundant
parentheses, whitespace, line breaks, comments and line continuations between tokens and with the other spelling of
every operator alias, and (b) with all user identifiers consistently renamed; messages (renaming applied), supported
methods and the document up to the renaming must be unchanged."""
import copy
import json
import random
import re

from .. import deepdiff, gen_expr as G, gen_model as GM, lexer
from ..runner import Case, Step, run_cases
from .c05 import inject_error

IDENT = re.compile(r"[A-Za-z_][A-Za-z0-9_$#]*")
SOFT = ["A", "U", "W", "R", "E", "M", "sup", "inf", "bounds", "simulation", "Pr", "X", "control", "deadlock", "simulate", "strategy",
        "under", "minE", "maxE", "numOf", "foreach", "imitate", "loadStrategy", "sat", "Pmax"]


def declared_names(m):
    names = []
    for d in m["gdecl"]:
        if d["kind"] in ("var", "typedef", "func") and d.get("name"):
            names.append((d["name"], "type" if d["kind"] == "typedef" else "value"))
    for t in m["templates"]:
        names.append((t["name"], "xmlname"))
        for p in t["params"]:
            names.append((p["name"], "value"))
        for d in t["decls"]:
            if d.get("name"):
                names.append((d["name"], "value"))
        for l in t["locations"]:
            if l.get("name"):
                names.append((l["name"], "xmlname"))
        for e in t["edges"]:
            for n, _ in e.get("select") or []:
                names.append((n, "value"))
    for i in m["insts"]:
        names.append((i["name"], "value"))
        for p in i["params"]:
            names.append((p["name"], "value"))
    seen = {}
    for n, k in names:
        seen.setdefault(n, k)
    return seen


_VOCAB = None


def dump_vocabulary():
    """Words the driver's dump itself uses (JSON keys, kind names, owner-label parts): never chosen as fresh names."""
    global _VOCAB
    if _VOCAB is None:
        import os
        from .. import build
        words = set("T F D I P L B i d s b p x bind global local param tset select scope iline bound nosym notype deep masked "
                    "absent none true false null exc".split())
        for f in ("dump.cpp", "invariants.cpp", "driver.cpp"):
            words.update(re.findall(r'key\("([A-Za-z_]+)"\)', open(os.path.join(build.HARNESS, f)).read()))
        txt = open(os.path.join(build.REPO, "include", "utap", "common.h")).read()
        words.update(IDENT.findall(txt[txt.index("enum kind_t"):txt.index("synchronisation_t")]))
        words.update("bound%d" % i for i in range(10))
        _VOCAB = words
    return _VOCAB


def fresh_names(rng, old, avoid):
    avoid = set(avoid) | dump_vocabulary()
    """old name -> fresh name (distinct, not colliding with anything in 'avoid')."""
    mapping = {}
    used = set(avoid)
    soft = [s for s in SOFT if s not in used]
    rng.shuffle(soft)
    for n, kind in old.items():
        for _ in range(50):
            r = rng.random()
            if kind == "value" and soft and r < 0.25:
                cand = soft.pop()
            elif kind == "xmlname" and r < 0.15:
                # names in <name> elements must not be keywords of the query syntax (the reader refuses those on
                # purpose); the single-letter path quantifier tokens are not in the keyword table
                cand = rng.choice(["A", "U", "W", "R", "E", "M"])
            elif r < 0.45:
                cand = rng.choice(["q", "z", "k", "t", "v", "w"]) + str(rng.randrange(100))
            elif r < 0.6:
                cand = "Long_identifier_" + "x" * rng.randint(5, 60) + str(rng.randrange(1000))
            elif r < 0.7:
                cand = "_" + rng.choice("abcxyz") + rng.choice(["", "_", "9"]) + str(rng.randrange(50))
            elif r < 0.8:
                cand = rng.choice("abcdxyz") + rng.choice(["$", "#", "$1", "#x"]) + str(rng.randrange(50))
            elif r < 0.9:
                base = rng.choice(["Name", "name", "NAME", "nAme"])
                cand = base + str(rng.randrange(30))
            else:
                cand = n.swapcase() + "_" + str(rng.randrange(10))
            if cand not in used and cand not in lexer.KEYWORDS and cand not in old and cand not in ("Err", "lpmin", "__RESET__"):
                break
        mapping[n] = cand
        used.add(cand)
    return mapping


def rename_text(text, mapping):
    return IDENT.sub(lambda mo: mapping.get(mo.group(), mo.group()), text)


def rename_model(m, mapping):
    def walk(x):
        if isinstance(x, str):
            return mapping.get(x, x)
        if isinstance(x, tuple):
            if x and x[0] in ("int", "dbl", "bool") and len(x) == 2 and not isinstance(x[1], tuple):
                return x            # literals
            return tuple(walk(y) for y in x)
        if isinstance(x, list):
            return [walk(y) for y in x]
        if isinstance(x, dict):
            out = {}
            for k, v in x.items():
                if k in ("text",) and isinstance(v, str):
                    out[k] = rename_text(v, mapping)          # raw declaration / function text
                elif k in ("id", "src", "dst", "init", "kind", "flag", "queries", "model_options", "both_flags", "init_missing"):
                    out[k] = v                                  # XML ids, structure
                else:
                    out[k] = walk(v)
            return out
        return x
    m2 = walk(copy.deepcopy(m))
    return m2


def add_parens(tree, rng, p=0.25):
    """Redundant parentheses around complete operands."""
    if not isinstance(tree, tuple) or not tree:
        return tree
    k = tree[0]
    if k in ("id", "int", "bool", "dbl"):
        return ("paren", tree) if rng.random() < p * 0.5 else tree
    if k == "quant":
        return ("quant", tree[1], tree[2], tree[3], add_parens(tree[4], rng, p))
    new = []
    for x in tree:
        if isinstance(x, tuple):
            new.append(add_parens(x, rng, p))
        elif isinstance(x, list):
            new.append([add_parens(y, rng, p) if isinstance(y, tuple) else y for y in x])
        else:
            new.append(x)
    out = tuple(new)
    return ("paren", out) if rng.random() < p else out


def paren_model(m, rng):
    m2 = copy.deepcopy(m)
    for t in m2["templates"]:
        for l in t["locations"]:
            for f in ("inv", "rate"):
                if l.get(f) is not None:
                    l[f] = add_parens(l[f], rng)
        for e in t["edges"]:
            if e.get("guard") is not None:
                e["guard"] = add_parens(e["guard"], rng)
            if e.get("prob") is not None:
                e["prob"] = add_parens(e["prob"], rng)
            e["assign"] = [add_parens(a, rng) for a in e["assign"]]
            if e.get("sync"):
                ce = e["sync"][0]
                if ce[0] == "idx":
                    ce = ("idx", ce[1], add_parens(ce[2], rng))
                e["sync"] = (ce, e["sync"][1])
    for i in m2["insts"]:
        i["args"] = [add_parens(a, rng) for a in i["args"]]
    return m2


# teach the renderer / dumper about redundant parentheses
def _install_paren():
    if getattr(G, "_paren_installed", False):
        return
    orig_render = G.Renderer.render
    orig_dump = G.dump
    orig_level = G.level
    orig_kind = G.kind_of

    def render(self, t):
        if t[0] == "paren":
            return "(" + self.sp() + orig_render(self, t[1]) + self.sp() + ")"
        return orig_render(self, t)

    def dump(t, env=None, bound=()):
        if t[0] == "paren":
            return G.dump(t[1], env, bound)
        return orig_dump(t, env, bound)

    def level(t):
        return G.POSTFIX + 1 if t[0] == "paren" else orig_level(t)

    def kind_of(t):
        return G.kind_of(t[1]) if t[0] == "paren" else orig_kind(t)
    G.Renderer.render = render
    G.dump = dump
    G.level = level
    G.kind_of = kind_of
    G._paren_installed = True


class NoisyRenderer:
    """Temporarily makes every expression rendering noisy (whitespace, comments, alias spellings)."""

    def __init__(self, rng):
        self.rng = rng

    def __enter__(self):
        self.saved = G.render_min
        rng = self.rng
        G.render_min = lambda t, r=None, variants=True, noise=False: self.saved(t, rng, True, True)
        GM.G.render_min = G.render_min
        return self

    def __exit__(self, *a):
        G.render_min = self.saved
        GM.G.render_min = self.saved


def observation(step):
    msgs = sorted((e["msg"], e["ctx"]) for e in step["errors"])
    warns = sorted((e["msg"], e["ctx"]) for e in step["warnings"])
    doc = copy.deepcopy(step.get("doc"))
    if doc:
        doc.pop("queries", None)
        for t in doc["templates"]:
            for l in t["locations"]:
                for k in ("inv_str", "exprate_str"):
                    l.pop(k, None)      # printed text legitimately contains the chosen names and spellings
            for e in t["edges"]:
                for k in ("guard_str", "sync_str", "assign_str", "prob_str"):
                    e.pop(k, None)
    return {"exc": step.get("exc"), "errors": msgs, "warnings": warns, "methods": step["methods"], "doc": doc}


def run(rep, tier, seed):
    _install_paren()
    rng = random.Random(seed * 1000003 + 9)
    quick = tier == "quick"
    n = 1500 if quick else 20000
    mg_small = GM.ModelGen(rng, 3, 5, 8)
    mg_big = GM.ModelGen(rng, 5, 10, 20)
    groups = []
    for i in range(n):
        m = (mg_big if i % 7 == 0 else mg_small).model()
        if rng.random() < 0.3:
            inject_error(m, rng)
        base = GM.render_xml(m, None)
        variants = []
        # (1)+(3) layout, comments, continuations, redundant parentheses, alias spellings
        with NoisyRenderer(rng):
            variants.append(("layout+parens+aliases", GM.render_xml(paren_model(m, rng), None), None))
        # (2) renaming
        old = declared_names(m)
        mapping = fresh_names(rng, old, set(IDENT.findall(base)))
        m2 = rename_model(m, mapping)
        variants.append(("renaming", GM.render_xml(m2, None), mapping))
        # both at once, through the XTA front end as well
        with NoisyRenderer(rng):
            variants.append(("renaming+layout", GM.render_xml(paren_model(m2, rng), None), mapping))
        groups.append((m, base, variants))
    cases = []
    for gi, (m, base, variants) in enumerate(groups):
        cases.append(Case("b%d" % gi, [Step("parse_doc", 0, "xml_buffer", 1, 1, base)], timeout=60))
        for vi, (name, xml, mapping) in enumerate(variants):
            cases.append(Case("v%d_%d" % (gi, vi), [Step("parse_doc", 0, "xml_buffer", 1, 1, xml)], timeout=60))
    res = run_cases(cases)
    n_rej = 0
    for gi, (m, base, variants) in enumerate(groups):
        rb = res["b%d" % gi]
        cb = [c for c in cases if c.id == "b%d" % gi][0] if False else None
        if rb["status"] != "ok":
            rep.crash(rb, Case("b", [Step("parse_doc", 0, "xml_buffer", 1, 1, base)]))
            rep.observe(None)
            continue
        ob = observation(rb["steps"][0])
        if ob["errors"]:
            n_rej += 1
        for vi, (name, xml, mapping) in enumerate(variants):
            rv = res["v%d_%d" % (gi, vi)]
            vcase = Case("replay", [Step("parse_doc", 0, "xml_buffer", 1, 1, base), Step("parse_doc", 1, "xml_buffer", 1, 1, xml)])
            if rv["status"] != "ok":
                rep.crash(rv, vcase)
                continue
            ov = observation(rv["steps"][0])
            rep.observe((name, xml))
            if mapping:
                inv = {v: k for k, v in mapping.items()}
                # apply the inverse renaming to everything observed on the renamed model
                ov = json.loads(IDENT.sub(lambda mo: inv.get(mo.group(), mo.group()), json.dumps(ov)))
                ov["errors"] = sorted(tuple(x) for x in ov["errors"])
                ov["warnings"] = sorted(tuple(x) for x in ov["warnings"])
                obn = json.loads(json.dumps(ob))
                obn["errors"] = sorted(tuple(x) for x in obn["errors"])
                obn["warnings"] = sorted(tuple(x) for x in obn["warnings"])
            else:
                obn = ob
            if ov["exc"] != obn["exc"]:
                rep.violation("C09:%s:exception-differs" % name, "original ends in %s, rewritten in %s" % (obn["exc"], ov["exc"]), vcase)
            elif [list(x) for x in ov["errors"]] != [list(x) for x in obn["errors"]]:
                rep.violation("C09:%s:diagnostics-differ" % name, "errors of the original %s, of the rewritten model %s%s" % (
                    obn["errors"][:3], ov["errors"][:3], " (names mapped back)" if mapping else ""), vcase)
            elif [list(x) for x in ov["warnings"]] != [list(x) for x in obn["warnings"]]:
                rep.violation("C09:%s:warnings-differ" % name, "warnings %s vs %s" % (obn["warnings"][:3], ov["warnings"][:3]), vcase)
            elif ov["methods"] != obn["methods"]:
                rep.violation("C09:%s:supported-methods-differ" % name, "%s vs %s" % (obn["methods"], ov["methods"]), vcase)
            else:
                d = deepdiff.first_diff(obn["doc"], ov["doc"])
                if d:
                    rep.violation("C09:%s:document-differs:%s" % (name, d[0]), "at %s: original %r, rewritten %r" % (d[0], d[1], d[2]), vcase)
    alias_pass(rep, rng, quick)
    nesting_and_names_pass(rep, rng, quick)
    query_pass(rep, rng, quick)
    shadow_rename_pass(rep, rng, quick)
    rep.sample({"original": groups[0][1][:700], "rewritten": groups[0][2][2][1][:900], "renaming": dict(list(groups[0][2][2][2].items())[:8])})
    rep.rule = ("generated models (30% with an injected semantic error) re-rendered with redundant parentheses around "
                "operands, blanks / newlines / comments / line continuations between tokens and the other spelling of "
                "every alias (and/&&, or/||, not/!, :=/=), with all user identifiers consistently renamed (long, short, "
                "underscore, $/#, case variants, soft-keyword shaped names), and both at once; messages with the "
                "renaming applied, supported methods and the whole canonical document compared; distinct = distinct "
                "rewritten texts")
    rep.extra["models_with_diagnostics"] = n_rej


def nesting_and_names_pass(rep, rng, quick):
    """(a) Redundant parentheses around every operand of right-nested expressions of moderate depth (inline-if chains,
    nested indices, nested calls, nested quantifiers): each pair of parentheses costs parser stack while it is open but
    must not change the result.  (b) Blanks, tabs and line breaks around the identifier inside <name> elements."""
    from .. import xmlgen
    import xml.etree.ElementTree as ET
    shapes = []
    for n in (3, 6, 9, 12, 15):
        shapes.append(("inline-if-chain/%d" % n, "v = " + " ".join("v > %d ? %d :" % (i, i) for i in range(n)) + " 0",
                       "v = " + "".join("((v) > (%d)) ? (%d) : (" % (i, i) for i in range(n)) + "(0)" + ")" * n, "assignment"))
        shapes.append(("nested-index/%d" % n, "a[" * n + "0" + "]" * n + " >= 0", "(a)[(" * n + "(0)" + ")]" * n + " >= (0)", "guard"))
        shapes.append(("nested-call/%d" % n, "v = " + "f(" * n + "1" + ")" * n, "v = (" + "f((" * n + "1" + "))" * n + ")", "assignment"))
    for n in (2, 3, 4, 5, 6):
        shapes.append(("nested-forall/%d" % n, "".join("forall (q%d : int[0,1]) " % i for i in range(n)) + "a[q0] >= 0",
                       "".join("(forall (q%d : int[0,1]) " % i for i in range(n)) + "((a[(q0)]) >= (0))" + ")" * n, "guard"))
        shapes.append(("nested-sum/%d" % n, "v = " + "".join("sum (q%d : int[0,1]) " % i for i in range(n)) + "q0",
                       "v = (" + "".join("(sum (q%d : int[0,1]) " % i for i in range(n)) + "(q0)" + ")" * n + ")", "assignment"))
    decl = "int v; int a[2]; int f(int p) { return p; }"
    cases = []
    for name, plain, par, kind in shapes:
        for where in ("label", "function"):
            def mk(text):
                if where == "label":
                    return xmlgen.simple_model(decl=decl, edges=[("id0", "id0", [(kind, text)])])
                body = ("v = (%s) ? 1 : 0;" % text) if kind == "guard" else text + ";"
                return xmlgen.simple_model(decl=decl + " void t() { %s }" % body)
            cases.append((name, where, Case("np%d" % len(cases), [Step("parse_doc", 0, "xml_buffer", 1, 1, mk(plain)),
                                                                  Step("parse_doc", 1, "xml_buffer", 1, 1, mk(par))], timeout=60)))
    res = run_cases([c for _, _, c in cases])
    for name, where, c in cases:
        r = res[c.id]
        if r["status"] != "ok":
            rep.crash(r, c)
            continue
        oa, ob = observation(r["steps"][0]), observation(r["steps"][1])
        rep.observe(("nesting", name, where))
        if oa["errors"] != ob["errors"] or oa["exc"] != ob["exc"]:
            rep.violation("C09:parentheses:diagnostics-differ:%s" % name.split("/")[0], "%s (%s): plain %s / %s, with redundant parentheses %s / %s" % (
                name, where, oa["exc"], oa["errors"][:2], ob["exc"], ob["errors"][:2]), c)
        elif oa["methods"] != ob["methods"]:
            rep.violation("C09:parentheses:supported-methods-differ", "%s (%s)" % (name, where), c)
        else:
            d = deepdiff.first_diff(oa["doc"], ob["doc"])
            if d:
                rep.violation("C09:parentheses:document-differs:%s" % name.split("/")[0], "%s (%s): at %s: %r vs %r" % (name, where, d[0], d[1], d[2]), c)
    # (b) whitespace inside <name> elements
    mg = GM.ModelGen(rng, 3, 4, 5)
    ncases = []
    for i in range(150 if quick else 3000):
        m = mg.model()
        base = GM.render_xml(m, None)
        pads = [" ", "\t", "\n", "\n  ", "  ", " \n\t ", "\r\n"]
        padded = re.sub(r"(<name[^>]*>)([^<]+)(</name>)", lambda mo: mo.group(1) + rng.choice(pads + [""]) + mo.group(2) + rng.choice(pads + [""]) + mo.group(3), base)
        if padded == base:
            continue
        ncases.append(Case("nm%d" % i, [Step("parse_doc", 0, "xml_buffer", 1, 1, base), Step("parse_doc", 1, "xml_buffer", 1, 1, padded)], timeout=60))
    nres = run_cases(ncases)
    for c in ncases:
        r = nres[c.id]
        if r["status"] != "ok":
            rep.crash(r, c)
            continue
        oa, ob = observation(r["steps"][0]), observation(r["steps"][1])
        rep.observe(("name-padding", c.steps[1].args[4]))
        if (oa["exc"], oa["errors"], oa["warnings"], oa["methods"]) != (ob["exc"], ob["errors"], ob["warnings"], ob["methods"]):
            rep.violation("C09:whitespace-in-name:diagnostics-differ", "plain %s %s; with blanks / line breaks around the names %s %s" % (
                oa["exc"], oa["errors"][:2], ob["exc"], ob["errors"][:2]), c)
        else:
            d = deepdiff.first_diff(oa["doc"], ob["doc"])
            if d:
                rep.violation("C09:whitespace-in-name:document-differs", "at %s: %r vs %r" % (d[0], d[1], d[2]), c)


def shadow_rename_pass(rep, rng, quick):
    """Renaming of ONE inner-scope entity whose chosen name coincides with a name declared in an enclosing scope (a
    typedef, a struct typedef, a global variable, a function): the model in which the inner entity carries the outer
    name and the model in which it carries a fresh name must agree on exceptions, diagnostics, supported methods and the
    document (fresh name mapped back).  The shadowed outer kinds include type names, whose lexing depends on scope."""
    from .. import xmlgen
    outers = [("typedef-range", "typedef int[0,3] %s;"), ("typedef-struct", "typedef struct { int a; int b; } %s;"),
              ("typedef-scalar", "typedef scalar[3] %s;"), ("global-int", "int %s = 1;"), ("global-array", "int %s[2];"),
              ("function", "int %s(int q) { return q; }"), ("const", "const int %s = 2;")]
    inners = [
        ("function-local", dict(decl="int g; void f(int n) { int @N@ = n; @N@ = @N@ + 1; g = @N@; }")),
        ("function-local-array", dict(decl="int g; void f(int n) { int @N@[2]; @N@[0] = n; g = @N@[0] + @N@[1]; }")),
        ("function-parameter", dict(decl="int g; int f(int @N@) { g = @N@; return @N@ + 1; }")),
        ("function-ref-parameter", dict(decl="int g; void f(int &@N@) { @N@ = @N@ + 1; } void h() { f(g); }")),
        ("block-local", dict(decl="int g; void f(int n) { if (n > 0) { int @N@ = n; g = @N@ * 2; } g = g + 1; }")),
        ("template-local", dict(decl="int g;", tdecl="int @N@ = 0;", edges=[("id0", "id0", [("guard", "@N@ < 3"), ("assignment", "@N@ = @N@ + 1, g = @N@")])])),
        ("template-parameter", dict(decl="int g;", params="const int @N@", edges=[("id0", "id0", [("guard", "@N@ < 3"), ("assignment", "g = @N@")])],
                                   system="Q = P(1); system Q;")),
        ("template-local-clock", dict(decl="int g;", tdecl="clock @N@;", locations=[("id0", "L0", [("invariant", "@N@ <= 5")], None)],
                                     edges=[("id0", "id0", [("guard", "@N@ >= 1"), ("assignment", "@N@ = 0")])])),
    ]
    names = ["id_t", "T", "rec", "x1", "Node", "v_t"]
    cases = []
    for oname, otext in outers:
        for iname, kw in inners:
            if oname.startswith("typedef") and "parameter" in iname:
                continue     # the grammar's parameter rule takes a NonTypeId: a parameter cannot carry a visible type name
            for rep_i in range(1 if quick else 4):
                nm = rng.choice(names)
                fresh = "zq%d" % rng.randrange(1000)
                def mk(n):
                    k = {a: ([(x[0], x[1], [(lk, lt.replace("@N@", n)) for lk, lt in x[2]]) + tuple(x[3:]) for x in b] if isinstance(b, list) else b.replace("@N@", n))
                         for a, b in kw.items()}
                    k["decl"] = (otext % nm) + " " + k["decl"]
                    return xmlgen.simple_model(**k)
                cases.append((oname, iname, fresh, nm, Case("sh%d" % len(cases), [Step("parse_doc", 0, "xml_buffer", 1, 1, mk(nm)),
                                                                                Step("parse_doc", 1, "xml_buffer", 1, 1, mk(fresh))], timeout=60)))
    res = run_cases([c[-1] for c in cases])
    for oname, iname, fresh, nm, c in cases:
        r = res[c.id]
        if r["status"] != "ok":
            rep.crash(r, c)
            continue
        oa, ob = observation(r["steps"][0]), observation(r["steps"][1])
        ob = json.loads(IDENT.sub(lambda mo: nm if mo.group() == fresh else mo.group(), json.dumps(ob)))
        oa = json.loads(json.dumps(oa))
        rep.observe(("shadow-rename", oname, iname, bool(oa["errors"])))
        if oa["exc"] != ob["exc"] or oa["errors"] != ob["errors"] or oa["warnings"] != ob["warnings"]:
            rep.violation("C09:shadow-rename:diagnostics-differ:%s" % oname.split("-")[0], "%s shadowed by %s: inner entity named like the outer one %s / %s, "
                          "named freshly %s / %s" % (oname, iname, oa["exc"], oa["errors"][:2], ob["exc"], ob["errors"][:2]), c)
        elif oa["methods"] != ob["methods"]:
            rep.violation("C09:shadow-rename:supported-methods-differ", "%s shadowed by %s" % (oname, iname), c)
        else:
            d = deepdiff.first_diff(oa["doc"], ob["doc"])
            if d:
                rep.violation("C09:shadow-rename:document-differs:%s" % oname.split("-")[0], "%s shadowed by %s: at %s: %r vs %r" % (oname, iname, d[0], d[1], d[2]), c)


def query_pass(rep, rng, quick):
    """The rewrites applied to query texts: (a) keyword aliases against symbolic forms in every query form of the
    catalogue (token level); (b) several queries in one text, with and without a line comment at the end of the lines
    and with block comments / blanks between tokens."""
    from .. import queries as Q, exprlab
    cat = Q.catalogue(rng, 1500 if quick else 30000)
    extra = ["control: A[] (P1.A and A<> P1.B)", "control: A[] (P1.A && A<> P1.B)", "E<> control: A[] (b and i > 0 and A<> P1.C)",
             "control: A[] (not b or i > 0 and A<> P1.C)", "A[] (b and not (i > 3 or P1.A)) imply P2.B", "E<> P1.A and not P2.B or b",
             "A[] not deadlock", "(b and P1.A) --> (P1.B or not b)", "Pr[<=10](<> P1.A and b)", "sup{b and not P1.A}: i", "simulate [<=10] {i} : b and P1.B"]
    texts = [t for _, t in cat] + extra
    sym, kw = [], []
    for txt in texts:
        # aliases are spelled the same in query syntax; strings (strategy file names) are left alone
        parts = re.split(r'("[^"]*")', txt)
        a, b = [], []
        for pi, part in enumerate(parts):
            if pi % 2:
                a.append(part)
                b.append(part)
                continue
            a.append(re.sub(r"\b(and|or|not)\b", lambda mo: ALIAS[mo.group(1)] + (" " if mo.group(1) == "not" else ""), part))
            b.append(re.sub(r"&&|\|\||!(?!=)", lambda mo: " " + UNALIAS[mo.group(0)] + " ", part))
        sym.append("".join(a))
        kw.append("".join(b))
    rs = exprlab.run_queries(sym, Q.MODEL, flags="", batch=25, tag="qs")
    rk = exprlab.run_queries(kw, Q.MODEL, flags="", batch=25, tag="qk")
    n = 0
    for a, b, (ra, ca, xa), (rb, cb, xb) in zip(sym, kw, rs, rk):
        if a == b:
            continue
        vcase = Case("replay", [ca.steps[0], Step("query", 0, "", a, b)])
        if xa is not None or xb is not None:
            rep.crash(xa or xb, vcase)
            continue
        n += 1
        oa = (ra.get("exc"), ra.get("nerr"), sorted(ra.get("errors") or []), [p_["dump"] for p_ in ra.get("props", [])])
        ob = (rb.get("exc"), rb.get("nerr"), sorted(rb.get("errors") or []), [p_["dump"] for p_ in rb.get("props", [])])
        rep.observe(("query-alias", a))
        if oa != ob:
            rep.violation("C09:query-aliases:%s-differ" % ("trees" if oa[:3] == ob[:3] else "diagnostics"),
                          "query %r gives %s, its keyword spelling %r gives %s" % (a, oa[:3], b, ob[:3]), vcase)
    rep.extra["query_alias_pairs"] = n
    # (b) several queries in one property text
    m = 0
    for i in range(200 if quick else 4000):
        qs = [t for _, t in Q.catalogue(rng, rng.randint(2, 4)) if "\n" not in t and '"' not in t]
        if len(qs) < 2:
            continue
        plain = "\n".join(qs)
        noisy = "\n".join(q + rng.choice(["", " // remark", "  // E<> true", " /* c */", "\t//", " // a */"]) for q in qs)
        lead = rng.choice(["", "// header\n", "/* header */\n", "\n"])
        c = Case("mq%d" % i, [Step("parse_doc", 0, "xml_buffer", 1, 0, Q.MODEL), Step("query", 0, "", plain), Step("query", 0, "", lead + noisy)], timeout=60)
        r = run_cases([c])[c.id] if False else None
        rep.extra.setdefault("_mq", []).append(c)
    mq = rep.extra.pop("_mq", [])
    mres = run_cases(mq)
    for c in mq:
        r = mres[c.id]
        if r["status"] != "ok":
            rep.crash(r, c)
            continue
        ra, rb = r["steps"][1]["results"][0], r["steps"][2]["results"][0]
        m += 1
        oa = (ra.get("exc"), ra.get("nerr"), sorted(ra.get("errors") or []), [p_["dump"] for p_ in ra.get("props", [])])
        ob = (rb.get("exc"), rb.get("nerr"), sorted(rb.get("errors") or []), [p_["dump"] for p_ in rb.get("props", [])])
        rep.observe(("multi-query", c.steps[2].args[2]))
        if oa != ob:
            rep.violation("C09:comments-in-query-list:%s-differ" % ("trees" if oa[:3] == ob[:3] else "diagnostics"),
                          "%d queries in one text: plain gives %s / %d properties, with comments %s / %d properties" % (
                              c.steps[1].args[2].count(b"\n") + 1, oa[:3], len(oa[3]), ob[:3], len(ob[3])), c)
    rep.extra["multi_query_texts"] = m


ALIAS = {"and": "&&", "or": "||", "not": "!"}
UNALIAS = {v: k for k, v in ALIAS.items()}


def alias_pass(rep, rng, quick):
    """Rewrite family 3 at token level: the same expression with every keyword alias (and, or, not) and with every
    symbolic form (&&, ||, !), nothing else changed; parsed and type checked in the scope of a fixed prelude.  The
    expressions mix the aliases with xor / imply / ?: / comparison operators of neighbouring precedence levels."""
    from .. import exprlab, xmlgen
    model = xmlgen.simple_model(decl=G.PRELUDE)
    tg = G.TypedGen(rng)
    ug = G.Gen(rng)
    texts = []
    n = 6000 if quick else 40000
    for i in range(n):
        x = rng.random()
        if x < 0.55:
            t = tg.bool(rng.choice([2, 3, 3, 4]))
        elif x < 0.7:
            t = tg.int(rng.choice([2, 3]))
        else:
            # chains over the boolean connectives only: these are where the spellings meet
            atoms = [("id", rng.choice(["b", "c"])), ("bin", "LT", ("id", "i"), ("id", "j")), ("bool", 1), ("un", "NOT", ("id", "b"))]
            t = rng.choice(atoms)
            for _ in range(rng.randint(2, 5)):
                k = rng.choice(["AND", "OR", "OR", "XOR", "imply", "imply", "NOT"])
                o = rng.choice(atoms)
                if k == "imply":
                    t = ("imply", t, o) if rng.random() < 0.5 else ("imply", o, t)
                elif k == "NOT":
                    t = ("un", "NOT", t)
                else:
                    t = ("bin", k, t, o) if rng.random() < 0.5 else ("bin", k, o, t)
        texts.append(G.render_min(t, rng))
    sym, kw = [], []
    for txt in texts:
        toks = [tk.text for tk in lexer.tokenize(txt)]
        sym.append(" ".join(ALIAS.get(tk, tk) for tk in toks))
        kw.append(" ".join(UNALIAS.get(tk, tk) for tk in toks))
    rs = exprlab.run_exprs(sym, model, flags="t", batch=60, tag="as")
    rk = exprlab.run_exprs(kw, model, flags="t", batch=60, tag="ak")
    swapped = 0
    for a, b, (ra, ca, xa), (rb, cb, xb) in zip(sym, kw, rs, rk):
        if a == b:
            rep.observe(None)
            continue
        swapped += 1
        vcase = Case("replay", [ca.steps[0], Step("exprs", 0, "global", 1, "S_EXPRESSION", "t", a, b)])
        if xa is not None or xb is not None:
            rep.crash(xa or xb, vcase)
            continue
        oa = (ra.get("exc"), ra.get("nerr"), ra.get("nerr_tc"), ra.get("err0"), ra.get("dump"), ra.get("tdump"))
        ob = (rb.get("exc"), rb.get("nerr"), rb.get("nerr_tc"), rb.get("err0"), rb.get("dump"), rb.get("tdump"))
        rep.observe(("alias", a))
        if oa != ob:
            which = "tree" if oa[4] != ob[4] else ("typed-tree" if oa[5] != ob[5] else "diagnostics")
            rep.violation("C09:aliases:%s-differs" % which, "%r gives %s, its keyword spelling %r gives %s" % (a, oa[1:], b, ob[1:]), vcase)
    rep.extra["alias_swapped_expressions"] = swapped


def replay(data):
    c = Case.from_json(data["case"])
    r = run_cases([c])[c.id]
    print(json.dumps(r, indent=1)[:9000])
