"""Verdict bookkeeping, known findings, evidence and replay files shared by all checks."""
import hashlib
import json
import os
import sys
import time

from . import runner

VERIF = runner.VERIF
# VERIF_EVIDENCE_DIR is set only by tools/coverage.py, whose runs are not checks and must not touch the evidence
EVIDENCE_DIR = os.environ.get("VERIF_EVIDENCE_DIR") or os.path.join(VERIF, "evidence")
REPLAY_DIR = os.path.join(EVIDENCE_DIR, "replay") if os.environ.get("VERIF_EVIDENCE_DIR") else os.path.join(VERIF, "replay")
KNOWN = os.path.join(VERIF, "known_findings.json")


def load_known():
    try:
        with open(KNOWN) as f:
            d = json.load(f)
    except FileNotFoundError:
        return {}
    out = {}
    for e in d.get("findings", []):
        if e.get("status", "known") == "known":
            out[e["key"]] = e
    return out


class Report:
    """Collects what one run of one check observed and turns it into exit code, evidence and replay files."""

    def __init__(self, pid, tier, seed, level="exploration"):
        self.pid = pid
        self.tier = tier
        self.seed = seed
        self.level = level
        self.t0 = time.time()
        self.evaluations = 0
        self.distinct = set()
        self.samples = []
        self.violations = {}        # key -> dict(description, replay, count)
        self.inconclusive = 0
        self.inconclusive_reasons = {}
        self.extra = {}
        self.rule = ""
        self.assumptions = []
        self.exhaustive = False
        self.min_nontrivial = 2
        self.max_inconclusive_ratio = 0.02
        self.known = load_known()

    # ---- recording
    def observe(self, distinct_key=None, n=1):
        """One evaluated case; distinct_key (any hashable/str) identifies it for the distinct-nontrivial count;
        None means the case was trivial by the check's rule."""
        self.evaluations += n
        if distinct_key is not None:
            if not isinstance(distinct_key, str):
                distinct_key = json.dumps(distinct_key, sort_keys=True, default=str)
            self.distinct.add(hashlib.blake2b(distinct_key.encode("utf-8", "replace"), digest_size=8).digest())

    def sample(self, obj, limit=6):
        if len(self.samples) < limit:
            self.samples.append(obj)

    def inconclusive_case(self, reason):
        self.inconclusive += 1
        self.inconclusive_reasons[reason] = self.inconclusive_reasons.get(reason, 0) + 1

    def violation(self, key, description, case=None, extra=None, prop=None):
        """key: stable structural key '<Cxx>:<class>:<site>'."""
        v = self.violations.get(key)
        if v is None:
            v = {"key": key, "description": description, "count": 0, "case": None, "extra": extra,
                 "property": prop or self.pid}
            self.violations[key] = v
        v["count"] += 1
        if v["case"] is None and case is not None:
            v["case"] = case.to_json() if hasattr(case, "to_json") else case

    def crash(self, res, case, prefix=None):
        """A child that did not finish normally.  Returns the key.  Always a violation (memory error, abort,
        unexpected exception escaping as terminate, watchdog) unless it is a watchdog firing, which is
        inconclusive."""
        kind = runner.crash_kind(res)
        if kind == "timeout":
            self.inconclusive_case("watchdog")
            return None
        err = res.get("stderr", "")
        site = runner.crash_site(err)
        if site == "noframe" and kind.startswith("assert:"):
            site = runner.assert_site(err)
        key = "crash:%s:%s" % (kind, site)
        ckey = "C01:" + key
        if ckey in self.known:
            # a listed C01 finding met while running this property's workload
            self.violation(ckey, "known crash: " + kind + " at " + site, case, prop="C01")
            if self.pid != "C01":
                self.inconclusive_case("known-C01-crash")
            return ckey
        pkey = "%s:%s" % (self.pid, key)
        tail = err[-1500:] if len(err) > 1500 else err
        self.violation(pkey, "%s at %s; stderr tail: %s" % (kind, site, tail), case)
        return pkey

    # ---- finishing
    def finish(self):
        os.makedirs(EVIDENCE_DIR, exist_ok=True)
        wall = time.time() - self.t0
        new = []
        known_hits = []
        for key, v in sorted(self.violations.items()):
            if key in self.known:
                known_hits.append(v)
            else:
                new.append(v)
        for v in known_hits:
            k = self.known[v["key"]]
            print("KNOWN-FINDING: property=%s %s [%s] (seen %d times in this run)" % (
                k.get("property", v["property"]), k.get("description", v["description"])[:300], v["key"],
                v["count"]))
        rc = 0
        if new:
            os.makedirs(REPLAY_DIR, exist_ok=True)
            for v in new:
                h = hashlib.sha1(v["key"].encode()).hexdigest()[:10]
                path = os.path.join(REPLAY_DIR, "%s-%s.json" % (self.pid, h))
                with open(path, "w") as f:
                    json.dump({"property": v["property"], "key": v["key"], "description": v["description"],
                               "seed": self.seed, "tier": self.tier, "case": v["case"], "extra": v["extra"]},
                              f, indent=1)
                print("VIOLATION property=%s replay=%s" % (self.pid, path))
                print("  key=%s count=%d\n  %s" % (v["key"], v["count"], v["description"][:1200]))
            rc = 1
        nontrivial = len(self.distinct)
        harness_problem = None
        if self.evaluations == 0:
            harness_problem = "no case was evaluated"
        elif nontrivial < self.min_nontrivial:
            harness_problem = "only %d distinct non-trivial cases observed (minimum %d)" % (
                nontrivial, self.min_nontrivial)
        elif self.inconclusive > self.max_inconclusive_ratio * (self.evaluations + self.inconclusive):
            harness_problem = "%d of %d cases inconclusive: %s" % (
                self.inconclusive, self.evaluations + self.inconclusive, self.inconclusive_reasons)
        cov = {
            "evaluations": self.evaluations,
            "distinct_nontrivial": nontrivial,
            "rule": self.rule,
            "samples": self.samples if self.samples else ["(no sample recorded)"],
            "inconclusive": self.inconclusive,
            "inconclusive_reasons": self.inconclusive_reasons,
            "known_findings_seen": [{"key": v["key"], "count": v["count"]} for v in known_hits],
            "new_violation_keys": [v["key"] for v in new],
        }
        if self.exhaustive:
            cov["exhaustive"] = True
        cov.update(self.extra)
        ev = {
            "property_id": self.pid,
            "tier": self.tier,
            "seed": self.seed,
            "level": self.level,
            "coverage": cov,
            "assumptions": self.assumptions,
            "wall_s": round(wall, 2),
            "violations": len(new),
        }
        with open(os.path.join(EVIDENCE_DIR, "%s.json" % self.pid), "w") as f:
            json.dump(ev, f, indent=1, default=str)
        print("%s tier=%s seed=%d: %d evaluations, %d distinct non-trivial, %d inconclusive, %d known findings, "
              "%d new violations, %.1fs" % (self.pid, self.tier, self.seed, self.evaluations, nontrivial,
                                            self.inconclusive, len(known_hits), len(new), wall))
        if rc == 0 and harness_problem:
            print("HARNESS-FAILURE: " + harness_problem)
            return 2
        return rc
