"""libFuzzer campaigns for C01 (clang 14; -fork with ignored crashes; artifacts re-executed in the ASan driver)."""
import glob
import os
import re
import shutil
import subprocess
import tempfile
from concurrent.futures import ThreadPoolExecutor

from . import build, gen_model as GM, queries as Q, workloads
from .runner import Case, Step, run_cases, WORK

DICT = ["<nta>", "</nta>", "<declaration>", "</declaration>", "<template>", "</template>", "<name>", "</name>",
        "<parameter>", "<location id=\"id0\">", "</location>", "<init ref=\"id0\"/>", "<transition>", "</transition>",
        "<source ref=\"id0\"/>", "<target ref=\"id0\"/>", "<label kind=\"guard\">", "<label kind=\"invariant\">",
        "<label kind=\"select\">", "<label kind=\"synchronisation\">", "<label kind=\"assignment\">",
        "<label kind=\"probability\">", "<label kind=\"exponentialrate\">", "</label>", "<branchpoint id=\"b\"/>",
        "<system>", "</system>", "<queries>", "<query>", "<formula>", "<comment>", "<option key=\"k\" value=\"v\"/>",
        "<expect outcome=\"success\" type=\"quality\" value=\"1\"/>", "<urgent/>", "<committed/>", "<lsc>", "<instance id=\"i\">",
        "<message>", "<condition>", "<update>", "<prechart>", "<lsclocation>", "<yloccoord>", "<temperature>", "<anchor instanceid=\"i\"/>",
        "<project>", "<instantiation>", "controllable=\"false\"", "&lt;", "&gt;", "&amp;",
        "int", "bool", "clock", "chan", "const", "broadcast", "urgent", "typedef", "struct", "void", "return", "if", "else",
        "for", "while", "do", "forall", "exists", "sum", "system", "process", "state", "init", "trans", "select", "guard",
        "sync", "assign", "probability", "commit", "branchpoint", "->", "-u->", "A[]", "E<>", "A<>", "E[]", "-->", "Pr[", "<=", ">=",
        "simulate", "control:", "control_t*", "minE", "maxE", "strategy", "under", "loadStrategy", "saveStrategy", "sup:", "inf{",
        "bounds", "deadlock", "imply", "and", "or", "not", "xor", "<?", ">?", "**", "++", "--", "+=", ":=", "'", "spawn", "exit()",
        "numOf", "dynamic", "priority", "progress", "gantt", "import", "meta", "hybrid", "double", "string", "scalar",
        "2147483648", "1e309", "/*", "*/", "//", "EXPECT:", "\\\n"]


def _seed_corpus(d, mode, rng):
    os.makedirs(d, exist_ok=True)
    i = 0

    def put(b):
        nonlocal i
        with open(os.path.join(d, "s%04d" % i), "wb") as f:
            f.write(b if isinstance(b, bytes) else b.encode())
        i += 1
    mg = GM.ModelGen(rng, 2, 4, 6)
    if mode == "xml":
        for _, t in workloads.test_models():
            put(t)
        for _ in range(20):
            put(GM.render_xml(mg.model(), rng))
    elif mode == "xta":
        for _ in range(30):
            put(GM.render_xta(mg.model(), rng))
    elif mode == "part":
        from .props import c01
        for tag, c in c01.part_cases(rng, 150):
            st = c.steps[-1]
            put(bytes([rng.randrange(256)]) + st.args[4])
    else:
        for _, q in Q.catalogue(rng, 120):
            put(q)


def run_fuzzers(rep, seed, quick):
    import random
    rng = random.Random(seed + 99)
    exe = build.build_harness("fuzz", "fuzz_target", ["fuzz_target.cpp"])
    os.makedirs(WORK, exist_ok=True)
    top = tempfile.mkdtemp(prefix="fuzz.", dir=WORK)
    secs = 40 if quick else 900
    forks = 4
    dictf = os.path.join(top, "dict.txt")
    with open(dictf, "w") as f:
        for t in DICT:
            f.write('"%s"\n' % t.replace("\\", "\\\\").replace('"', '\\"').replace("\n", "\\x0a"))
    qmodel = os.path.join(top, "qmodel.xml")
    with open(qmodel, "w") as f:
        f.write(Q.MODEL)
    stats = {}

    def one(mode):
        cdir = os.path.join(top, "corpus_" + mode)
        adir = os.path.join(top, "art_" + mode) + "/"
        os.makedirs(adir, exist_ok=True)
        _seed_corpus(cdir, mode, random.Random(seed * 31 + len(mode)))
        env = dict(os.environ, FUZZ_MODE=mode, FUZZ_QUERY_MODEL=qmodel, UTAP_VERIF_NO_DLOPEN="1",
                   ASAN_OPTIONS="detect_leaks=0:allocator_may_return_null=1:quarantine_size_mb=8:abort_on_error=0",
                   UBSAN_OPTIONS="print_stacktrace=1", LC_ALL="C")
        cmd = [exe, cdir, "-fork=%d" % forks, "-ignore_crashes=1", "-ignore_timeouts=1", "-ignore_ooms=1",
               "-max_total_time=%d" % secs, "-seed=%d" % (seed + 1), "-max_len=%d" % (6000 if mode in ("xml", "xta") else 600),
               "-timeout=25", "-rss_limit_mb=3000", "-dict=" + dictf, "-artifact_prefix=" + adir, "-print_final_stats=1"]
        p = subprocess.run(cmd, stdout=subprocess.PIPE, stderr=subprocess.STDOUT, env=env, text=True, cwd=top)
        log = p.stdout
        st = {"exit": p.returncode}
        m = re.findall(r"#(\d+): cov: (\d+) ft: (\d+) corp: (\d+)", log)
        if m:
            st.update(executions=int(m[-1][0]), cov=int(m[-1][1]), ft=int(m[-1][2]), corpus=int(m[-1][3]))
        arts = sorted(glob.glob(adir + "*"))
        st["artifacts"] = len(arts)
        return mode, st, arts, log[-1500:]

    with ThreadPoolExecutor(max_workers=4) as ex:
        results = list(ex.map(one, ["xml", "xta", "part", "query"]))
    # re-execute every artifact in the ASan driver to obtain a stable key
    cases = []
    for mode, st, arts, tail in results:
        stats[mode] = st
        if "executions" not in st:
            rep.inconclusive_case("libFuzzer %s produced no statistics: %s" % (mode, tail[-300:]))
        else:
            rep.observe(("fuzz", mode, st["cov"]), st["executions"])
        for a in arts[:200]:
            data = open(a, "rb").read()
            if mode == "xml":
                steps = [Step("parse_doc", 0, "xml_buffer", 1, 0, data.split(b"\0")[0])]
            elif mode == "xta":
                steps = [Step("parse_doc", 0, "xta_buffer", 1, 0, data.split(b"\0")[0])]
            elif mode == "query":
                steps = [Step("parse_doc", 0, "xml_buffer", 1, 0, Q.MODEL), Step("query", 0, "", data.split(b"\0")[0])]
            else:
                b = data[0]
                text = data[1:].split(b"\0")[0]
                allp = ["S_XTA", "S_DECLARATION", "S_LOCAL_DECL", "S_INST", "S_SYSTEM", "S_PARAMETERS", "S_INVARIANT",
                        "S_EXPONENTIAL_RATE", "S_SELECT", "S_GUARD", "S_SYNC", "S_ASSIGN", "S_EXPRESSION", "S_EXPRESSION_LIST",
                        "S_PROPERTY", "S_XTA_PROCESS", "S_PROBABILITY", "S_INSTANCE_LINE", "S_MESSAGE", "S_UPDATE", "S_CONDITION"]
                safe = ["S_DECLARATION", "S_LOCAL_DECL", "S_PARAMETERS", "S_INST", "S_SYSTEM", "S_XTA", "S_XTA_PROCESS"]
                builder = (b >> 5) & 3
                newxta = 1 if (b & 0x80) == 0 else 0
                if builder == 0:
                    steps = [Step("part", 0, newxta, allp[(b & 31) % 21], "pretty", text)]
                elif builder == 1:
                    steps = [Step("part", 0, newxta, safe[(b & 31) % 7], "doc", text)]
                else:
                    steps = [Step("part", 0, newxta, allp[(b & 31) % 21], "expr", text)]
            cases.append((mode, os.path.basename(a), Case("f_%s_%d" % (mode, len(cases)), steps, timeout=60)))
    repro = 0
    if cases:
        res = run_cases([c for _, _, c in cases])
        for mode, name, c in cases:
            r = res[c.id]
            if r["status"] == "ok":
                stats.setdefault("artifacts_not_reproduced", {}).setdefault(mode, 0)
                stats["artifacts_not_reproduced"][mode] += 1
            elif r["status"] == "timeout":
                rep.inconclusive_case("fuzz artifact times out under the watchdog")
            else:
                repro += 1
                rep.crash(r, c)
    stats["artifacts_reproduced"] = repro
    shutil.rmtree(top, ignore_errors=True)
    return stats
