"""First difference between two JSON-like values, as a path with list indices generalised."""


def first_diff(a, b, path=""):
    if type(a) != type(b):
        return path, a, b
    if isinstance(a, dict):
        for k in sorted(set(a) | set(b)):
            if k not in a or k not in b:
                return path + "/" + k, a.get(k, "<absent>"), b.get(k, "<absent>")
            d = first_diff(a[k], b[k], path + "/" + k)
            if d:
                return d
        return None
    if isinstance(a, list):
        if len(a) != len(b):
            return path + "/#len", len(a), len(b)
        for i, (x, y) in enumerate(zip(a, b)):
            d = first_diff(x, y, path + "/[]")
            if d:
                return d
        return None
    if a != b:
        return path, a, b
    return None
