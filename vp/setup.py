"""MANIFEST.setup_cmd: build the instrumented library and driver once so that the first check does not pay for it."""
import sys

from . import runner


def main():
    runner.driver_path("asan")
    print("setup ok")
    return 0


if __name__ == "__main__":
    sys.exit(main())
