"""Small helpers to write UPPAAL XML by hand (the abstract model generator lives in gen_model.py)."""


def esc(s):
    return s.replace("&", "&amp;").replace("<", "&lt;").replace(">", "&gt;")


HEADER = ('<?xml version="1.0" encoding="utf-8"?>\n'
          "<!DOCTYPE nta PUBLIC '-//Uppaal Team//DTD Flat System 1.5//EN' "
          "'http://www.it.uu.se/research/group/darts/uppaal/flat-1_5.dtd'>\n")


def label(kind, text, extra=""):
    return '<label kind="%s"%s>%s</label>' % (kind, extra, esc(text))


def simple_model(decl="", tdecl="", params="", locations=None, edges=None, system=None, queries="", tname="P",
                 init=None, header=True, extra_templates=""):
    """locations: list of (id, name or None, [(kind, text)...], flag or None)
    edges: list of (src, dst, [(kind, text)...])"""
    if locations is None:
        locations = [("id0", "L0", [], None)]
    if edges is None:
        edges = []
    out = [HEADER if header else "", "<nta>\n<declaration>", esc(decl), "</declaration>\n"]
    out.append("<template>\n<name>%s</name>\n" % tname)
    if params:
        out.append("<parameter>%s</parameter>\n" % esc(params))
    out.append("<declaration>%s</declaration>\n" % esc(tdecl))
    for lid, name, labels, flag in locations:
        out.append('<location id="%s">' % lid)
        if name:
            out.append("<name>%s</name>" % name)
        for k, t in labels:
            out.append(label(k, t))
        if flag:
            out.append("<%s/>" % flag)
        out.append("</location>\n")
    out.append('<init ref="%s"/>\n' % (init or locations[0][0]))
    for src, dst, labels in edges:
        out.append('<transition><source ref="%s"/><target ref="%s"/>' % (src, dst))
        for k, t in labels:
            out.append(label(k, t))
        out.append("</transition>\n")
    out.append("</template>\n")
    out.append(extra_templates)
    if system is None:
        system = "system %s;" % tname
    out.append("<system>%s</system>\n" % esc(system))
    out.append(queries)
    out.append("</nta>\n")
    return "".join(out)


def queries_xml(formulas):
    out = ["<queries>"]
    for f in formulas:
        out.append("<query><formula>%s</formula><comment/></query>" % esc(f))
    out.append("</queries>")
    return "".join(out)
