"""CLI: python3 -m vp.main <Cxx> --tier quick|thorough [--replay FILE]"""
import argparse
import importlib
import json
import os
import sys
import traceback

from . import framework, runner


def main():
    ap = argparse.ArgumentParser()
    ap.add_argument("prop")
    ap.add_argument("--tier", default=os.environ.get("VERIF_TIER", "quick"), choices=["quick", "thorough"])
    ap.add_argument("--replay")
    ap.add_argument("--seed", type=int, default=None)
    a = ap.parse_args()
    seed = a.seed if a.seed is not None else int(os.environ.get("VERIF_SEED", "0") or 0)
    pid = a.prop.upper()
    try:
        mod = importlib.import_module("vp.props." + pid.lower())
    except ImportError as e:
        print("no check for %s: %s" % (pid, e))
        return 2
    if a.replay:
        with open(a.replay) as f:
            data = json.load(f)
        mod.replay(data)
        return 0
    rep = framework.Report(pid, a.tier, seed)
    try:
        mod.run(rep, a.tier, seed)
    except runner.HarnessFailure as e:
        print("HARNESS-FAILURE: %s" % e)
        return 2
    except SystemExit as e:
        return e.code if isinstance(e.code, int) else 2
    except Exception:
        traceback.print_exc()
        print("HARNESS-FAILURE: exception in check")
        return 2
    return rep.finish()


if __name__ == "__main__":
    sys.exit(main())
