"""Abstract UPPAAL models, their XML and XTA renderings and the document they prescribe.

An abstract model is a plain dict:
  gdecl:      [Decl]                     global declarations
  templates:  [Templ]
  insts:      [{name, params:[Param], templ, args:[tree]}]   (partial) instantiations of the system section
  system:     [[name,...], ...]          process names grouped by priority level ("system A, B < C;")
  queries:    [str]
Decl  = {kind:"var", name, type:T, init:tree|None} | {kind:"typedef", name, type:T} | {kind:"func", ...}
T     = ("int",) | ("int", lo_tree, hi_tree) | ("bool",) | ("clock",) | ("double",) | ("chan", prefix|None)
        | ("const", T) | ("array", T, size_tree) | ("name", typedef_name, T)
Param = {name, type:T, ref:bool}
Templ = {name, params:[Param], decls:[Decl], locations:[Loc], branchpoints:[id], init:loc id, edges:[Edge]}
Loc   = {id, name|None, inv:tree|None, rate:tree|None, flag:None|"urgent"|"committed"}
Edge  = {src, dst, control:True|False|None, select:[(name,T)], guard:tree|None, sync:(tree,"!"|"?")|None,
         assign:[tree], prob:tree|None}
"""
from . import gen_expr as G
from .xmlgen import esc, HEADER


# ---- types -------------------------------------------------------------------------------------------------
def type_text(t):
    k = t[0]
    if k == "int":
        if len(t) == 1:
            return "int"
        return "int[%s,%s]" % (G.render_min(t[1]), G.render_min(t[2]))
    if k in ("bool", "clock", "double"):
        return k
    if k == "chan":
        return (t[1] + " " if t[1] else "") + "chan"
    if k == "const":
        return "const " + type_text(t[1])
    if k == "name":
        return t[1]
    raise ValueError(t)


def decl_text(t, name):
    """'T name[dims]' for variables and parameters (arrays put their sizes after the name)."""
    dims = ""
    while t[0] == "array":
        dims += "[%s]" % G.render_min(t[2])
        t = t[1]
    return type_text(t) + " " + name + dims


def type_dump(t, env):
    k = t[0]
    if k == "int":
        if len(t) == 1:
            return "<RANGE <INT> <UNKNOWN (CONSTANT i -32768)> <UNKNOWN (CONSTANT i 32767)>>"
        return "<RANGE <INT> <UNKNOWN %s> <UNKNOWN %s>>" % (G.dump(t[1], env), G.dump(t[2], env))
    if k == "bool":
        return "<BOOL>"
    if k == "clock":
        return "<CLOCK>"
    if k == "double":
        return "<DOUBLE>"
    if k == "chan":
        base = "<CHANNEL>"
        if t[1] == "broadcast":
            return "<BROADCAST %s>" % base
        if t[1] == "urgent":
            return "<URGENT %s>" % base
        if t[1] == "urgent broadcast":
            return "<BROADCAST <URGENT %s>>" % base
        return base
    if k == "const":
        if t[1] == ("int",):
            return "<CONSTANT <INT>>"
        return "<CONSTANT %s>" % type_dump(t[1], env)
    if k == "array":
        # 'T v[a][b]' is an array of size a whose elements are arrays of size b
        dims = []
        while t[0] == "array":
            dims.append(t[2])
            t = t[1]
        out = type_dump(t, env)
        for size in reversed(dims):
            out = "<ARRAY %s <RANGE <INT> <UNKNOWN (CONSTANT i 0)> <UNKNOWN (MINUS %s (CONSTANT i 1))>>>" % (
                out, G.dump(size, env))
        return out
    if k == "name":
        return "<LABEL %s:%s>" % (t[1], type_dump(t[2], env))
    raise ValueError(t)


def param_text(p):
    t = p["type"]
    dims = ""
    while t[0] == "array":
        dims += "[%s]" % G.render_min(t[2])
        t = t[1]
    return type_text(t) + (" &" if p["ref"] else " ") + p["name"] + dims


def param_dump(p, env):
    d = type_dump(p["type"], env)
    return "<REF %s>" % d if p["ref"] else d


# ---- declarations ------------------------------------------------------------------------------------------
def decls_text(decls, rng=None):
    out = []
    for d in decls:
        if d["kind"] == "var":
            s = decl_text(d["type"], d["name"])
            if d.get("init") is not None:
                s += " = " + init_text(d["init"])
            out.append(s + ";")
        elif d["kind"] == "typedef":
            out.append("typedef %s;" % decl_text(d["type"], d["name"]))
        elif d["kind"] == "func":
            out.append(d["text"])
        elif d["kind"] == "raw":
            out.append(d["text"])
    return "\n".join(out)


def init_text(i):
    if isinstance(i, list):
        return "{ " + ", ".join(init_text(x) for x in i) + " }"
    return G.render_min(i)


def init_dump(i, env):
    if isinstance(i, list):
        return "(LIST %s)" % " ".join(init_dump(x, env) for x in i)
    return G.dump(i, env)


# ---- rendering: XML ----------------------------------------------------------------------------------------
LABEL_ORDER = ["select", "guard", "synchronisation", "assignment", "probability"]


def edge_labels(e):
    out = {}
    if e.get("select"):
        out["select"] = ", ".join("%s : %s" % (n, type_text(t)) for n, t in e["select"])
    if e.get("guard") is not None:
        out["guard"] = G.render_min(e["guard"])
    if e.get("sync") is not None:
        out["synchronisation"] = G.render_min(e["sync"][0]) + e["sync"][1]
    if e.get("assign"):
        out["assignment"] = ", ".join(G.render_min(a) for a in e["assign"])
    if e.get("prob") is not None:
        out["probability"] = G.render_min(e["prob"])
    return out


def render_xml(m, rng=None, gui=True, cdata=False, empty_elems=False, extras=False):
    """rng (optional) shuffles label order inside transitions and adds GUI noise; cdata: some text blocks are written
    as (or partly as) CDATA sections instead of with entity escapes - the same character data for an XML parser."""
    from .xmlgen import esc as plain_esc

    def esc(text):
        if not cdata or rng is None or not text or "]]>" in text or rng.random() > 0.3:
            return plain_esc(text)
        x = rng.random()
        if x < 0.9 or cdata != "mixed":
            return "<![CDATA[" + text + "]]>"
        cut = rng.randrange(1, len(text)) if len(text) > 1 else 0
        if cut == 0:
            return plain_esc(text)
        if x < 0.95:
            return plain_esc(text[:cut]) + "<![CDATA[" + text[cut:] + "]]>"
        return "<![CDATA[" + text[:cut] + "]]>" + plain_esc(text[cut:])
    def nm(text):
        """extras: blanks, tabs and line breaks around a name (as XML pretty printers lay names out)"""
        if not extras or rng is None or rng.random() > 0.3:
            return text
        pads = ["", " ", "\t", "\n", "\n    ", "  \n\t", "\r\n  "]
        return rng.choice(pads) + text + rng.choice(pads)

    def note():
        """extras: labels of the kinds the reader does not keep (comments, test code), with text"""
        if not extras or rng is None or rng.random() > 0.25:
            return ""
        return '<label kind="%s" x="1" y="1">%s</label>' % (rng.choice(["comments", "comments", "testcodeEnter", "testcodeExit"]),
                                                              plain_esc(rng.choice(["a note", "x <= 5 ?", "// not code", "i = 1;", " "])))
    o = [HEADER, "<nta>\n<declaration>", esc(decls_text(m["gdecl"])), "</declaration>\n"]
    for t in m["templates"]:
        o.append('<template>\n<name x="5" y="5">%s</name>\n' % nm(t["name"]))
        if t["params"]:
            o.append("<parameter>%s</parameter>\n" % esc(", ".join(param_text(p) for p in t["params"])))
        o.append("<declaration>%s</declaration>\n" % esc(decls_text(t["decls"])))
        for l in t["locations"]:
            if empty_elems and rng is not None and not l.get("name") and l.get("inv") is None and l.get("rate") is None \
                    and not l.get("flag") and not l.get("both_flags") and rng.random() < 0.7:
                # a location without children written in the empty-element syntax
                o.append('<location id="%s" x="1" y="2"/>\n' % l["id"])
                continue
            o.append('<location id="%s" x="%d" y="%d">' % (l["id"], 10, 20) if gui else '<location id="%s">' % l["id"])
            if l.get("name"):
                o.append("<name>%s</name>" % nm(l["name"]))
            labs = []
            if l.get("inv") is not None:
                labs.append(("invariant", G.render_min(l["inv"])))
            if l.get("rate") is not None:
                labs.append(("exponentialrate", G.render_min(l["rate"])))
            if rng is not None and len(labs) == 2 and rng.random() < 0.5:
                labs.reverse()
            for k, txt in labs:
                if empty_elems and rng is not None and rng.random() < 0.3:
                    o.append('<label kind="%s" x="0" y="0"/>' % rng.choice(["comments", "invariant", "exponentialrate"]))
                o.append(note())
                o.append('<label kind="%s">%s</label>' % (k, esc(txt)))
            o.append(note())
            if l.get("both_flags"):
                o.append("<urgent/><committed/>")
            elif l.get("flag"):
                o.append("<%s/>" % l["flag"])
            o.append("</location>\n")
        for b in t["branchpoints"]:
            o.append('<branchpoint id="%s" x="1" y="2"/>\n' % b)
        if not t.get("init_missing"):
            o.append('<init ref="%s"/>\n' % t["init"])
        for e in t["edges"]:
            attr = ""
            if e.get("control") is not None:
                attr = ' controllable="%s"' % ("true" if e["control"] else "false")
            o.append('<transition%s><source ref="%s"/><target ref="%s"/>' % (attr, e["src"], e["dst"]))
            labs = list(edge_labels(e).items())
            if rng is not None:
                # a select label must precede the labels that use its binders; everything else may come in any order
                rest = [x for x in labs if x[0] != "select"]
                rng.shuffle(rest)
                labs = [x for x in labs if x[0] == "select"] + rest
            for k, txt in labs:
                if empty_elems and rng is not None and rng.random() < 0.25:
                    o.append('<label kind="%s" x="0" y="0"/>' % rng.choice(["comments", "guard", "assignment", "synchronisation", "select"]))
                o.append(note())
                o.append('<label kind="%s"%s>%s</label>' % (k, ' x="3" y="4"' if gui else "", esc(txt)))
            if rng is not None and rng.random() < 0.3:
                o.append('<nail x="1" y="1"/>')
            o.append("</transition>\n")
        o.append("</template>\n")
    o.append("<system>%s</system>\n" % esc(system_text(m)))
    if m.get("queries"):
        o.append("<queries>")
        for k, v in m.get("model_options", []):
            o.append('<option key="%s" value="%s"/>' % (plain_esc(k), plain_esc(v)))
        for q in m["queries"]:
            if isinstance(q, str):
                o.append("<query><formula>%s</formula><comment>c</comment></query>" % esc(q))
                continue
            o.append("<query><formula>%s</formula><comment>%s</comment>" % (esc(q["formula"]), esc(q.get("comment", ""))))
            for k, v in q.get("options", []):
                o.append('<option key="%s" value="%s"/>' % (plain_esc(k), plain_esc(v)))
            ex = q.get("expect")
            if ex:
                o.append('<expect outcome="%s" type="%s" value="%s">' % (ex["outcome"], ex["type"], plain_esc(ex["value"])))
                for r in ex.get("resources", []):
                    o.append('<resource type="%s" value="%s" unit="%s"/>' % r)
                o.append("</expect>")
            for r in q.get("results", []):
                o.append('<result outcome="%s" type="%s" value="%s" timestamp="2022-11-22 09:36:25 +0100"><option key="--diagnostic" value="0"/><details>d</details></result>' % r)
            o.append("</query>")
        o.append("</queries>\n")
    o.append("</nta>\n")
    return "".join(o)


def system_text(m):
    out = []
    for i in m["insts"]:
        ps = "(%s)" % ", ".join(param_text(p) for p in i["params"]) if i["params"] else ""
        out.append("%s%s = %s(%s);" % (i["name"], ps, i["templ"], ", ".join(G.render_min(a) for a in i["args"])))
    groups = [", ".join(g) for g in m["system"]]
    out.append("system " + " < ".join(groups) + ";")
    return "\n".join(out)


# ---- rendering: XTA ----------------------------------------------------------------------------------------
def loc_name(l):
    return l["name"] if l.get("name") else "_" + l["id"]


def render_xta(m, rng=None):
    o = [decls_text(m["gdecl"]), "\n"]
    for t in m["templates"]:
        names = {l["id"]: loc_name(l) for l in t["locations"]}
        names.update({b: "_" + b for b in t["branchpoints"]})
        o.append("process %s(%s) {\n" % (t["name"], ", ".join(param_text(p) for p in t["params"])))
        o.append(decls_text(t["decls"]) + "\n")
        sts = []
        for l in t["locations"]:
            s = loc_name(l)
            if l.get("inv") is not None and l.get("rate") is not None:
                s += " { %s ; %s }" % (G.render_min(l["inv"]), G.render_min(l["rate"]))
            elif l.get("inv") is not None:
                s += " { %s }" % G.render_min(l["inv"])
            elif l.get("rate") is not None:
                s += " { ; %s }" % G.render_min(l["rate"])
            sts.append(s)
        o.append("state " + ", ".join(sts) + ";\n")
        if t["branchpoints"]:
            o.append("branchpoint " + ", ".join("_" + b for b in t["branchpoints"]) + ";\n")
        com = [loc_name(l) for l in t["locations"] if l.get("flag") == "committed" or l.get("both_flags")]
        urg = [loc_name(l) for l in t["locations"] if l.get("flag") == "urgent" or l.get("both_flags")]
        # the document records flags per location, so the order of the two lists is free
        parts = []
        if com:
            parts.append("commit " + ", ".join(com) + ";\n")
        if urg:
            parts.append("urgent " + ", ".join(urg) + ";\n")
        if rng is not None and len(parts) == 2 and rng.random() < 0.5 and not any(l.get("both_flags") for l in t["locations"]):
            parts.reverse()     # (a location in both lists keeps the flag named first: the XML reader's order is commit, urgent)
        o.extend(parts)
        o.append("init %s;\n" % names[t["init"]])
        if t["edges"]:
            o.append("trans\n")
            es = []
            prev_src = None
            for e in t["edges"]:
                arrow = "-u->" if e.get("control") is False else "->"
                body = []
                labs = edge_labels(e)
                if "select" in labs:
                    body.append("select %s;" % labs["select"])
                if "guard" in labs:
                    body.append("guard %s;" % labs["guard"])
                if "synchronisation" in labs:
                    body.append("sync %s;" % labs["synchronisation"])
                if "assignment" in labs:
                    body.append("assign %s;" % labs["assignment"])
                if "probability" in labs:
                    body.append("probability %s;" % labs["probability"])
                chained = (rng is not None and prev_src == e["src"] and "probability" not in labs and rng.random() < 0.6)
                if chained:
                    es.append("    %s %s { %s }" % (arrow, names[e["dst"]], " ".join(body)))
                else:
                    es.append("  %s %s %s { %s }" % (names[e["src"]], arrow, names[e["dst"]], " ".join(body)))
                prev_src = e["src"]
            o.append(",\n".join(es) + ";\n")
        o.append("}\n")
    o.append(system_text(m) + "\n")
    return "".join(o)


# ---- the document an abstract model prescribes -------------------------------------------------------------
DEFAULT_GUARD = "(CONSTANT b 1)"      # what a missing label stands for (trivially true / no-op)
DEFAULT_ASSIGN = "(CONSTANT i 1)"
DEFAULT_PROB = "(CONSTANT i 1)"
DEFAULT_INV = "(CONSTANT b 1)"  # overwritten by calibration: see expected()


def scope_env(m, t=None, edge=None, extra_owner=None):
    """Owner labels for every name visible in template t (None: global scope / system section)."""
    owners = {}
    var_types = {}
    if t is not None:
        tn = ("D:" if t.get("dynamic") else "T:") + t["name"]
        for p in t["params"]:
            owners[p["name"]] = tn + ".param"
        for d in t["decls"]:
            if d["kind"] in ("var", "typedef", "func"):
                owners[d["name"]] = tn + ".local"
        if edge is not None:
            for n, _ in t["edges"][edge].get("select") or []:
                owners[n] = "%s.select/%d" % (tn, edge)
    if extra_owner:
        owners.update(extra_owner)
    return G.Env("global", owners, var_types, {})


def comma(dumps):
    out = dumps[0]
    for d in dumps[1:]:
        out = "(COMMA %s %s)" % (out, d)
    return out


def expected(m):
    """Expected canonical document (same shape as the relevant parts of the driver's dump), at builder level."""
    genv = scope_env(m)
    exp = {"globals": [], "templates": [], "dyn_templates": [], "instances": [], "processes": []}
    for d in m["gdecl"]:
        if d["kind"] == "var":
            exp["globals"].append({"name": d["name"], "type": type_dump(d["type"], genv),
                                   "init": init_dump(d["init"], genv) if d.get("init") is not None else "()"})
    for t in m["templates"]:
        tenv = scope_env(m, t)
        names = {l["id"]: loc_name(l) for l in t["locations"]}
        bnames = {b: "_" + b for b in t["branchpoints"]}
        et = {"name": t["name"], "params": [{"name": p["name"], "type": param_dump(p, genv)} for p in t["params"]],
              "vars": [], "locations": [], "branchpoints": [bnames[b] for b in t["branchpoints"]],
              "init": names[t["init"]], "edges": []}
        for d in t["decls"]:
            if d["kind"] == "var":
                et["vars"].append({"name": d["name"], "type": type_dump(d["type"], tenv),
                                   "init": init_dump(d["init"], tenv) if d.get("init") is not None else "()"})
        for l in t["locations"]:
            et["locations"].append({"name": loc_name(l), "urgent": l.get("flag") == "urgent",
                                    "committed": l.get("flag") == "committed",
                                    "inv": G.dump(l["inv"], tenv) if l.get("inv") is not None else None,
                                    "exprate": G.dump(l["rate"], tenv) if l.get("rate") is not None else None})
        for i, e in enumerate(t["edges"]):
            eenv = scope_env(m, t, i)

            def ep(x):
                return ("L:" + names[x]) if x in names else ("B:" + bnames[x])
            ee = {"src": ep(e["src"]), "dst": ep(e["dst"]), "control": e.get("control") is not False,
                  "select": [{"name": n, "type": "<CONSTANT %s>" % type_dump(ty, tenv)} for n, ty in (e.get("select") or [])],
                  "guard": G.dump(e["guard"], eenv) if e.get("guard") is not None else None,
                  "sync": "(SYNC %s %s)" % (e["sync"][1], G.dump(e["sync"][0], eenv)) if e.get("sync") else None,
                  "assign": comma([G.dump(a, eenv) for a in e["assign"]]) if e.get("assign") else None,
                  "prob": G.dump(e["prob"], eenv) if e.get("prob") is not None else None}
            et["edges"].append(ee)
        exp["dyn_templates" if t.get("dynamic") else "templates"].append(et)
    tmap = {t["name"]: t for t in m["templates"]}
    imap = {}
    for i in m["insts"]:
        # parameters visible in the arguments: the instantiation's own parameters
        ienv = G.Env("global", {p["name"]: "I:%s.param" % i["name"] for p in i["params"]}, {}, {})
        base = tmap.get(i["templ"]) or None
        if base is not None:
            bparams = [(p["name"], None) for p in base["params"]]
            bmapping = {}
            root = base["name"]
            bplist, bmidx, bunbound = [p["name"] for p in base["params"]], {}, len(base["params"])
        else:
            b = imap[i["templ"]]
            bparams = b["unbound_params"]
            bmapping = dict(b["mapping"])
            root = b["root"]
            bplist, bmidx, bunbound = b["plist"], b["mapping_idx"], b["unbound"]
        mapping = dict(bmapping)
        for (pn, _), a in zip(bparams, i["args"]):
            mapping[pn] = G.dump(a, ienv)
        # by position: the parameter list of an instance is its own formals followed by the list of what it instantiates
        # (two parameters may carry the same name); arguments bind the first (unbound) parameters of the base
        no = len(i["params"])
        plist = [p["name"] for p in i["params"]] + list(bplist)
        mapping_idx = {no + k: v for k, v in bmidx.items()}
        for j, a in enumerate(i["args"][:bunbound]):
            mapping_idx[no + j] = G.dump(a, ienv)
        rec = {"name": i["name"], "root": root, "unbound_params": [(p["name"], None) for p in i["params"]] + [],
               "plist": plist, "mapping_idx": mapping_idx,
               "mapping": mapping, "unbound": len(i["params"]), "arguments": len(i["args"]),
               "own_params": [{"name": p["name"], "type": param_dump(p, genv)} for p in i["params"]]}
        # parameters not bound by this instantiation stay free only if the base had more parameters than arguments
        imap[i["name"]] = rec
        exp["instances"].append(rec)
    prio = 0
    for gi, g in enumerate(m["system"]):
        for n in g:
            if n in imap:
                r = imap[n]
                exp["processes"].append({"name": n, "templ": r["root"], "mapping": r["mapping"], "unbound": r["unbound"],
                                         "plist": r["plist"], "mapping_idx": r["mapping_idx"], "priority": gi})
            else:
                exp["processes"].append({"name": n, "templ": n, "mapping": {}, "unbound": len(tmap[n]["params"]),
                                         "priority": gi})
    return exp


def compare(exp, doc, analysed=False):
    """Returns a list of (key, message) differences between the expected canonical document and a dumped one."""
    diffs = []

    def d(key, msg):
        diffs.append((key, msg))

    def same_expr(want, got, default, what):
        if want is None:
            return got in default
        if analysed and what == "inv":
            # documented normalisation of static analysis: an invariant inv is stored as (1 && inv)
            if got == "(AND (CONSTANT i 1) %s)" % want or got == "(AND (CONSTANT b 1) %s)" % want:
                return True
        return got == want

    gv = [v for v in doc["globals"]["vars"]]
    # the built-in declarations come first; user globals are the tail
    ng = len(exp["globals"])
    tail = gv[len(gv) - ng:] if ng else []
    if len(gv) < ng:
        d("globals:missing", "expected %d user globals, document has %d variables in all" % (ng, len(gv)))
    elif len(gv) - ng != builtin_count():
        d("globals:added", "document has %d global variables: %d built-in + %d declared expected" % (
            len(gv), builtin_count(), ng))
    for w, g in zip(exp["globals"], tail):
        if w["name"] != g["name"]:
            d("globals:order-or-name", "expected global %s, found %s" % (w["name"], g["name"]))
        elif w["type"] != g["type"]:
            d("globals:type", "global %s: type %s, expected %s" % (w["name"], g["type"], w["type"]))
        elif not analysed and w["init"] != g["init"]:
            d("globals:init", "global %s: initialiser %s, expected %s" % (w["name"], g["init"], w["init"]))
    if len(exp["templates"]) != len(doc["templates"]):
        d("templates:count", "expected %d templates, found %d" % (len(exp["templates"]), len(doc["templates"])))
    gdyn = doc.get("dyn_templates") or []
    if len(exp.get("dyn_templates", [])) != len(gdyn):
        d("dyn-templates:count", "expected %d dynamic templates, found %d" % (len(exp.get("dyn_templates", [])), len(gdyn)))
    for w, g in list(zip(exp["templates"], doc["templates"])) + list(zip(exp.get("dyn_templates", []), gdyn)):
        tn = w["name"]
        if g["name"] != tn:
            d("template:name-or-order", "expected template %s, found %s" % (tn, g["name"]))
            continue
        gp = [{"name": p["name"], "type": p["type"]} for p in g["params"]]
        if gp != w["params"]:
            d("template:params", "%s: parameters %s, expected %s" % (tn, gp, w["params"]))
        lv = [v for v in g["decl"]["vars"]]
        if [v["name"] for v in lv] != [v["name"] for v in w["vars"]]:
            d("template:locals", "%s: local variables %s, expected %s" % (tn, [v["name"] for v in lv], [v["name"] for v in w["vars"]]))
        else:
            for wv, gvv in zip(w["vars"], lv):
                if wv["type"] != gvv["type"]:
                    d("template:local-type", "%s.%s: type %s, expected %s" % (tn, wv["name"], gvv["type"], wv["type"]))
                elif not analysed and wv["init"] != gvv["init"]:
                    d("template:local-init", "%s.%s: init %s, expected %s" % (tn, wv["name"], gvv["init"], wv["init"]))
        if len(g["locations"]) != len(w["locations"]):
            d("location:count", "%s: %d locations, expected %d" % (tn, len(g["locations"]), len(w["locations"])))
        for i, (wl, gl) in enumerate(zip(w["locations"], g["locations"])):
            if gl["nr"] != i:
                d("location:nr", "%s: location %d has nr %d" % (tn, i, gl["nr"]))
            if gl["name"] != wl["name"]:
                d("location:name-or-order", "%s: location %d is %s, expected %s" % (tn, i, gl["name"], wl["name"]))
                continue
            if gl["urgent"] != wl["urgent"] or gl["committed"] != wl["committed"]:
                d("location:flag", "%s.%s: urgent=%s committed=%s, expected %s/%s" % (
                    tn, wl["name"], gl["urgent"], gl["committed"], wl["urgent"], wl["committed"]))
            if not same_expr(wl["inv"], gl["inv"], ("()", "(CONSTANT b 1)", "(CONSTANT i 1)"), "inv"):
                d("location:invariant", "%s.%s: invariant %s, expected %s" % (tn, wl["name"], gl["inv"], wl["inv"]))
            if not analysed and not same_expr(wl["exprate"], gl["exprate"], ("()",), "rate"):
                d("location:exprate", "%s.%s: rate %s, expected %s" % (tn, wl["name"], gl["exprate"], wl["exprate"]))
        if [b["name"] for b in g["branchpoints"]] != w["branchpoints"]:
            d("branchpoints", "%s: branchpoints %s, expected %s" % (tn, [b["name"] for b in g["branchpoints"]], w["branchpoints"]))
        if g["init"] != w["init"]:
            d("init", "%s: init %s, expected %s" % (tn, g["init"], w["init"]))
        if len(g["edges"]) != len(w["edges"]):
            d("edge:count", "%s: %d edges, expected %d" % (tn, len(g["edges"]), len(w["edges"])))
        for i, (we, ge) in enumerate(zip(w["edges"], g["edges"])):
            en = "%s edge %d" % (tn, i)
            if ge["nr"] != i:
                d("edge:nr", "%s has nr %d" % (en, ge["nr"]))
            if ge["src"] != we["src"] or ge["dst"] != we["dst"]:
                d("edge:endpoints", "%s: %s -> %s, expected %s -> %s" % (en, ge["src"], ge["dst"], we["src"], we["dst"]))
            if ge["control"] != we["control"]:
                d("edge:control", "%s: control=%s, expected %s" % (en, ge["control"], we["control"]))
            gs = [{"name": s["name"], "type": s["type"]} for s in ge["select"]]
            if gs != we["select"]:
                d("edge:select", "%s: select %s, expected %s" % (en, gs, we["select"]))
            for lab, default in (("guard", ("()", DEFAULT_GUARD, "(CONSTANT i 1)")), ("sync", ("()",)),
                                 ("assign", ("()", DEFAULT_ASSIGN, "(CONSTANT b 1)")),
                                 ("prob", ("()", DEFAULT_PROB, "(CONSTANT b 1)"))):
                if not same_expr(we[lab], ge[lab], default, lab):
                    d("edge:" + lab, "%s: %s is %s, expected %s" % (en, lab, ge[lab], we[lab]))
    # instances
    gi = {i["name"]: i for i in doc["instances"]}
    for w in exp["instances"]:
        g = gi.get(w["name"])
        if g is None:
            d("instance:missing", "instantiation %s not registered" % w["name"])
            continue
        _cmp_inst(d, "instance", w, g, analysed)
    # processes
    wp = exp["processes"]
    gp = doc["processes"]
    if [p["name"] for p in gp] != [p["name"] for p in wp]:
        d("process:list", "processes %s, expected %s" % ([p["name"] for p in gp], [p["name"] for p in wp]))
    else:
        pr = sorted(set(p["priority"] for p in wp))
        for w, g in zip(wp, gp):
            _cmp_inst(d, "process", w, g, analysed)
        # priorities: only the order relation between processes is prescribed
        for a, ga in zip(wp, gp):
            for b, gb in zip(wp, gp):
                if (a["priority"] < b["priority"]) != (ga["priority"] < gb["priority"]):
                    d("process:priority", "priority order of %s and %s differs from the system line" % (a["name"], b["name"]))
                    break
    return diffs


_BUILTINS = None


def builtin_count():
    """Number of variables the library pre-declares (counted in the tree's own utap_builtin_declarations())."""
    global _BUILTINS
    if _BUILTINS is None:
        import os
        import re
        from . import build
        txt = open(os.path.join(build.REPO, "src", "parser.y")).read()
        body = txt[txt.index("utap_builtin_declarations()"):]
        body = body[:body.index("}")]
        _BUILTINS = len(re.findall(r'"const\s', body))
    return _BUILTINS


def _cmp_inst(d, cls, w, g, analysed):
    if g["templ"] != w.get("root", w.get("templ")):
        d(cls + ":template", "%s %s instantiates %s, expected %s" % (cls, w["name"], g["templ"], w.get("root", w.get("templ"))))
    if g["unbound"] != w["unbound"]:
        d(cls + ":unbound", "%s %s: %d unbound parameters, expected %d" % (cls, w["name"], g["unbound"], w["unbound"]))
    if "mapping_idx" in w:
        want = {"%s|%d" % (w["plist"][k], k): v for k, v in w["mapping_idx"].items()}
        if set(g["mapping"]) != set(want):
            d(cls + ":mapping-keys", "%s %s maps %s, expected %s" % (cls, w["name"], sorted(g["mapping"]), sorted(want)))
        else:
            for k, v in want.items():
                if g["mapping"][k] != v:
                    d(cls + ":argument", "%s %s: parameter %s bound to %s, expected %s" % (cls, w["name"], k, g["mapping"][k], v))
        gp = [p["name"] for p in g.get("params", [])]
        if gp and gp != w["plist"]:
            d(cls + ":parameter-list", "%s %s has parameters %s, expected %s" % (cls, w["name"], gp, w["plist"]))
        return
    gm = {k.split("|")[0]: v for k, v in g["mapping"].items()}
    if set(gm) != set(w["mapping"]):
        d(cls + ":mapping-keys", "%s %s maps %s, expected %s" % (cls, w["name"], sorted(gm), sorted(w["mapping"])))
    else:
        for k, v in w["mapping"].items():
            if gm[k] != v:
                d(cls + ":argument", "%s %s: parameter %s bound to %s, expected %s" % (cls, w["name"], k, gm[k], v))


# ---- generation --------------------------------------------------------------------------------------------
class ModelGen:
    """Random accepted models.  Everything generated here is well typed by construction."""

    def __init__(self, rng, max_templates=3, max_locations=5, max_edges=8):
        self.rng = rng
        self.maxT = max_templates
        self.maxL = max_locations
        self.maxE = max_edges
        self.uid = 0

    def fresh_id(self):
        self.uid += 1
        r = self.rng
        return r.choice(["id", "n", "loc", "x"]) + str(r.randrange(1000) * 1000 + self.uid)

    def lit(self, lo=0, hi=9):
        return ("int", self.rng.randint(lo, hi))

    def int_expr(self, ints, depth=2):
        r = self.rng
        if depth <= 0 or r.random() < 0.35 or not ints:
            return ("id", r.choice(ints)) if ints and r.random() < 0.6 else self.lit()
        k = r.choice(["PLUS", "MINUS", "MULT", "MOD", "MIN", "MAX"])
        if k == "MOD" and ints and r.random() < 0.5:
            # a variable as divisor: the text then contains '%' followed by a letter (nothing evaluates it here)
            return ("bin", k, self.int_expr(ints, depth - 1), ("id", r.choice(ints)))
        return ("bin", k, self.int_expr(ints, depth - 1), self.int_expr(ints, depth - 1) if k != "MOD" else self.lit(1, 7))

    def int_pred(self, ints, bools):
        r = self.rng
        x = r.random()
        if bools and x < 0.2:
            return ("id", r.choice(bools))
        if bools and x < 0.3:
            return ("un", "NOT", ("id", r.choice(bools)))
        return ("bin", r.choice(["LT", "LE", "EQ", "NEQ", "GE", "GT"]), self.int_expr(ints, 1), self.int_expr(ints, 1))

    def guard(self, ints, bools, clocks):
        r = self.rng
        atoms = []
        for _ in range(r.randint(1, 3)):
            if clocks and r.random() < 0.45:
                atoms.append(("bin", r.choice(["GE", "GT", "LE", "LT", "EQ"]), ("id", r.choice(clocks)), self.lit()))
            else:
                atoms.append(self.int_pred(ints, bools))
        g = atoms[0]
        for a in atoms[1:]:
            g = ("bin", "AND", g, a)
        return g

    def invariant(self, ints, clocks):
        r = self.rng
        atoms = [("bin", r.choice(["LE", "LT"]), ("id", r.choice(clocks)), self.int_expr([], 0))]
        if r.random() < 0.3 and len(clocks) > 1:
            atoms.append(("bin", "LE", ("id", r.choice(clocks)), self.lit(5, 20)))
        if r.random() < 0.2 and ints:
            atoms.append(self.int_pred(ints, []))
        g = atoms[0]
        for a in atoms[1:]:
            g = ("bin", "AND", g, a)
        return g

    def updates(self, wints, ints, bools, clocks):
        r = self.rng
        out = []
        for _ in range(r.randint(1, 3)):
            x = r.random()
            if clocks and x < 0.3:
                out.append(("assign", "ASSIGN", ("id", r.choice(clocks)), ("int", 0)))
            elif wints and x < 0.75:
                v = r.choice(wints)
                if r.random() < 0.2:
                    out.append(("un", r.choice(["POST_INCREMENT", "PRE_INCREMENT", "POST_DECREMENT"]), ("id", v)))
                else:
                    out.append(("assign", r.choice(["ASSIGN", "ASSIGN", "ASS_PLUS", "ASS_MINUS"]), ("id", v),
                                self.int_expr(ints, 2)))
            elif bools:
                out.append(("assign", "ASSIGN", ("id", r.choice(bools)), self.int_pred(ints, bools)))
            elif clocks:
                out.append(("assign", "ASSIGN", ("id", r.choice(clocks)), ("int", 0)))
        return out

    # words that are keywords of the 4.x model syntax only: the XML reader lets them through as <name> of a location
    KW_LOCATION_NAMES = ["select", "for", "while", "do", "if", "else", "default", "return", "typedef", "struct", "meta",
                         "progress", "gantt", "assert", "IO", "xor", "string", "import"]

    # names the library itself treats specially somewhere (xmlwriter.cpp: "Err" gets a colour, "lpmin" a nail angle)
    SPECIAL_LOCATION_NAMES = ["Err", "lpmin", "ERR", "err", "Error"]

    def model(self, priorities=None, branchpoints=True, params=True, partial=True, dynamic=False, kwnames=False, rich_edges=False):
        """rich_edges: probability weights also on edges that leave locations, edges between branchpoints (including a
        branchpoint's self loop), locations with the names the XML writer treats specially."""
        r = self.rng
        m = {"gdecl": [], "templates": [], "insts": [], "system": [], "queries": []}
        # ---- globals
        gints, gbools, gclocks, gconsts = [], [], [], []
        chans = []       # (name, prefix, dim or None)
        m["gdecl"].append({"kind": "var", "name": "N", "type": ("const", ("int",)), "init": self.lit(2, 5)})
        gconsts.append("N")
        for i in range(r.randint(1, 4)):
            n = "g%d" % i
            ty = r.choice([("int",), ("int", self.lit(0, 0), self.lit(5, 20)), ("int", ("un", "UNARY_MINUS", self.lit(1, 5)), ("id", "N"))])
            m["gdecl"].append({"kind": "var", "name": n, "type": ty, "init": self.lit(0, 3) if r.random() < 0.5 else None})
            gints.append(n)
        for i in range(r.randint(0, 2)):
            n = "gb%d" % i
            m["gdecl"].append({"kind": "var", "name": n, "type": ("bool",), "init": ("bool", r.randint(0, 1)) if r.random() < 0.5 else None})
            gbools.append(n)
        for i in range(r.randint(1, 2)):
            n = "gx%d" % i
            m["gdecl"].append({"kind": "var", "name": n, "type": ("clock",), "init": None})
            gclocks.append(n)
        if r.random() < 0.5:
            m["gdecl"].append({"kind": "var", "name": "ga", "type": ("array", ("int", self.lit(0, 0), self.lit(9, 9)), self.lit(2, 4)), "init": None})
        for i in range(r.randint(1, 3)):
            n = "c%d" % i
            prefix = r.choice([None, None, "broadcast", "urgent", "urgent broadcast"])
            dim = self.lit(2, 3) if r.random() < 0.3 else None
            ty = ("chan", prefix)
            if dim:
                ty = ("array", ty, dim)
            m["gdecl"].append({"kind": "var", "name": n, "type": ty, "init": None})
            chans.append((n, prefix, dim))
        if r.random() < 0.12:
            # channel priority declarations with the default level at every position
            cn = [c for c, pf, dim in chans if dim is None]
            if cn:
                forms = ["chan priority %s < default;" % cn[0], "chan priority default < %s;" % cn[0],
                         "chan priority %s, default;" % cn[0], "chan priority %s;" % cn[0]]
                if len(cn) > 1:
                    forms += ["chan priority %s < default < %s;" % (cn[0], cn[1]), "chan priority %s, %s < default;" % (cn[0], cn[1]),
                              "chan priority default, %s < %s;" % (cn[0], cn[1])]
                m["gdecl"].append({"kind": "raw", "name": "", "text": r.choice(forms)})
        if r.random() < 0.5:
            m["gdecl"].append({"kind": "func", "name": "inc", "text": "void inc() { %s = %s + 1; }" % (gints[0], gints[0])})
            has_inc = True
        else:
            has_inc = False
        # ---- templates
        nT = r.randint(1, self.maxT)
        for ti in range(nT):
            t = {"name": "P%d" % ti, "params": [], "decls": [], "locations": [], "branchpoints": [], "edges": []}
            ints, wints, bools, clocks = list(gints) + list(gconsts), list(gints), list(gbools), list(gclocks)
            tchans = list(chans)
            if params and r.random() < 0.6:
                for pi in range(r.randint(1, 3)):
                    kind = r.choice(["cint", "cint", "rint", "rbool", "rclock", "rchan", "bint"])
                    pn = "p%d" % pi
                    if kind == "cint":
                        t["params"].append({"name": pn, "type": ("const", ("int",)), "ref": False, "kind": kind})
                        ints.append(pn)
                    elif kind == "bint":
                        t["params"].append({"name": pn, "type": ("const", ("int", self.lit(0, 0), self.lit(3, 6))), "ref": False, "kind": kind})
                        ints.append(pn)
                    elif kind == "rint":
                        t["params"].append({"name": pn, "type": ("int",), "ref": True, "kind": kind})
                        ints.append(pn)
                        wints.append(pn)
                    elif kind == "rbool":
                        t["params"].append({"name": pn, "type": ("bool",), "ref": True, "kind": kind})
                        bools.append(pn)
                    elif kind == "rclock":
                        t["params"].append({"name": pn, "type": ("clock",), "ref": True, "kind": kind})
                        clocks.append(pn)
                    elif kind == "rchan":
                        t["params"].append({"name": pn, "type": ("chan", None), "ref": True, "kind": kind})
                        tchans.append((pn, None, None))
            for li in range(r.randint(0, 2)):
                n = "l%d" % li
                t["decls"].append({"kind": "var", "name": n, "type": r.choice([("int",), ("int", self.lit(0, 0), self.lit(7, 9))]),
                                   "init": self.lit(0, 2) if r.random() < 0.5 else None})
                ints.append(n)
                wints.append(n)
            if r.random() < 0.6:
                t["decls"].append({"kind": "var", "name": "lx", "type": ("clock",), "init": None})
                clocks.append("lx")
            if r.random() < 0.25:
                t["decls"].append({"kind": "var", "name": "lb", "type": ("bool",), "init": None})
                bools.append("lb")
            nL = r.randint(1, self.maxL)
            for li in range(nL):
                loc = {"id": self.fresh_id(), "name": ("L%d" % li) if r.random() < 0.75 else None, "inv": None, "rate": None, "flag": None}
                if rich_edges and r.random() < 0.06:
                    sn = r.choice(self.SPECIAL_LOCATION_NAMES)
                    if sn not in [l["name"] for l in t["locations"]]:
                        loc["name"] = sn
                if kwnames and r.random() < 0.05:
                    kn = r.choice(self.KW_LOCATION_NAMES)
                    if kn not in [l["name"] for l in t["locations"]]:
                        loc["name"] = kn
                x = r.random()
                if x < 0.35:
                    loc["inv"] = self.invariant(ints, clocks)
                if r.random() < 0.2:
                    loc["rate"] = self.int_expr([n for n in ints if n in gconsts] , 1) if r.random() < 0.5 else self.lit(1, 9)
                y = r.random()
                if y < 0.12:
                    loc["flag"] = "urgent"
                elif y < 0.24:
                    loc["flag"] = "committed"
                t["locations"].append(loc)
            t["init"] = r.choice(t["locations"])["id"]
            if branchpoints and r.random() < 0.3:
                for _ in range(r.randint(1, 2)):
                    t["branchpoints"].append(self.fresh_id())
            nE = r.randint(0, self.maxE)
            locids = [l["id"] for l in t["locations"]]
            for ei in range(nE):
                e = {"src": r.choice(locids), "dst": r.choice(locids), "control": r.choice([None, None, True, False]),
                     "select": [], "guard": None, "sync": None, "assign": [], "prob": None}
                eints = list(ints)
                if r.random() < 0.3:
                    for si in range(r.randint(1, 2)):
                        sn = "s%d" % si
                        if rich_edges and r.random() < 0.2:
                            # a binder that shadows a visible integer (global, template local or parameter): the library
                            # warns and the binder still belongs to the edge
                            cand = [n for n in ints if n not in [x for x, _ in e["select"]] and n not in gconsts]
                            if cand:
                                sn = r.choice(cand)
                        e["select"].append((sn, ("int", self.lit(0, 0), self.lit(1, 3))))
                        if sn not in eints:
                            eints.append(sn)
                if r.random() < 0.55:
                    e["guard"] = self.guard(eints, bools, clocks)
                if tchans and r.random() < 0.4:
                    cn, prefix, dim = r.choice(tchans)
                    ce = ("id", cn)
                    if dim:
                        sel = [n for n, _ in e["select"]]
                        ce = ("idx", ce, ("id", sel[0]) if sel and r.random() < 0.5 else self.lit(0, 1))
                    e["sync"] = (ce, r.choice(["!", "?"]))
                    if prefix and "urgent" in prefix and e["guard"] is not None:
                        # clock guards are not allowed on urgent channels: keep the model accepted
                        e["guard"] = self.int_pred(eints, bools)
                    if prefix and "broadcast" in prefix and e["sync"][1] == "?" and e["guard"] is not None:
                        e["guard"] = self.int_pred(eints, bools)
                if r.random() < 0.6:
                    e["assign"] = self.updates([w for w in wints if w not in [x for x, _ in e["select"]]], eints, bools, clocks)
                    if has_inc and r.random() < 0.15:
                        e["assign"].append(("call", "inc", []))
                if rich_edges and r.random() < 0.15:
                    e["prob"] = r.choice([self.lit(2, 9), ("bin", "PLUS", ("id", "N"), self.lit(1, 5)), self.lit(1, 1)])
                t["edges"].append(e)
            # branchpoint edges: one edge into each branchpoint and two weighted edges out of it
            for b in t["branchpoints"]:
                t["edges"].append({"src": r.choice(locids), "dst": b, "control": None, "select": [],
                                   "guard": self.guard(ints, bools, []) if r.random() < 0.5 else None, "sync": None,
                                   "assign": [], "prob": None})
                for _ in range(r.randint(1, 2)):
                    t["edges"].append({"src": b, "dst": r.choice(locids), "control": None, "select": [], "guard": None,
                                       "sync": None, "assign": self.updates(wints, ints, bools, clocks) if r.random() < 0.5 else [],
                                       "prob": self.lit(1, 9) if r.random() < 0.8 else None})
            if rich_edges and t["branchpoints"] and r.random() < 0.5:
                b0 = t["branchpoints"][0]
                b1 = t["branchpoints"][-1]
                for src, dst in ([(b0, b0)] if r.random() < 0.6 else []) + ([(b0, b1), (b1, b0)] if b1 != b0 and r.random() < 0.6 else []) + \
                        ([(b0, b0)] if r.random() < 0.2 else []):
                    t["edges"].append({"src": src, "dst": dst, "control": None, "select": [], "guard": None, "sync": None, "assign": [],
                                       "prob": self.lit(1, 9) if r.random() < 0.7 else None})
            # parallel edges and self loops are produced by the random endpoints above; sort by source so that
            # the XTA renderer can chain them
            if r.random() < 0.5:
                t["edges"].sort(key=lambda e: locids.index(e["src"]) if e["src"] in locids else 999)
            if rich_edges and r.random() < 0.25:
                # per-template id numbering: the same id values are used again in every template of the model
                remap = {}
                for k2, l in enumerate(t["locations"]):
                    remap[l["id"]] = "id%d" % k2
                for k2, b in enumerate(t["branchpoints"]):
                    remap[b] = "id%d" % (len(t["locations"]) + k2)
                for l in t["locations"]:
                    l["id"] = remap[l["id"]]
                t["branchpoints"] = [remap[b] for b in t["branchpoints"]]
                t["init"] = remap[t["init"]]
                for e in t["edges"]:
                    e["src"], e["dst"] = remap[e["src"]], remap[e["dst"]]
            m["templates"].append(t)
        # ---- a dynamic template: declared in the globals, defined by a <template> of that name, never instantiated
        if dynamic and r.random() < 0.25:
            dp = [{"name": "dp%d" % i, "type": ("int",), "ref": False, "kind": "vint"} for i in range(r.randint(0, 2))]
            l0, l1 = self.fresh_id(), self.fresh_id()
            dt = {"name": "D0", "params": dp, "dynamic": True, "branchpoints": [], "init": l0,
                  "decls": [{"kind": "var", "name": "dl", "type": ("int",), "init": None}] if r.random() < 0.5 else [],
                  "locations": [{"id": l0, "name": "DA", "inv": None, "rate": None, "flag": None},
                                {"id": l1, "name": None, "inv": None, "rate": None, "flag": None}],
                  "edges": [{"src": l0, "dst": l1, "control": None, "select": [], "sync": None, "prob": None,
                             "guard": ("bin", "GT", ("id", dp[0]["name"]), self.lit()) if dp and r.random() < 0.5 else None,
                             "assign": []}]}
            m["gdecl"].append({"kind": "raw", "name": "", "text": "dynamic D0(%s);" % ", ".join(param_text(p) for p in dp)})
            m["templates"].insert(r.randint(0, len(m["templates"]) - (1 if r.random() < 0.7 else 0)), dt)
        # ---- system
        procs = []
        for t in m["templates"]:
            if t.get("dynamic"):
                continue
            if not t["params"]:
                if r.random() < 0.7:
                    procs.append(t["name"])
                if r.random() < 0.3:
                    nm = "I%s" % t["name"]
                    m["insts"].append({"name": nm, "params": [], "templ": t["name"], "args": []})
                    procs.append(nm)
                continue
            def arg_for(p):
                k = p["kind"]
                if k == "cint":
                    return r.choice([self.lit(0, 9), ("id", "N"), ("bin", "PLUS", ("id", "N"), self.lit(1, 2))])
                if k == "bint":
                    return self.lit(0, 3)
                if k == "rint":
                    cands = [d["name"] for d in m["gdecl"] if d["kind"] == "var" and d["type"] == ("int",)]
                    return ("id", r.choice(cands)) if cands else None
                if k == "rbool":
                    return ("id", r.choice(gbools)) if gbools else None
                if k == "rclock":
                    return ("id", r.choice(gclocks))
                if k == "rchan":
                    cands = [c for c, pf, dim in chans if pf is None and dim is None]
                    return ("id", r.choice(cands)) if cands else None
            n_inst = r.randint(1, 2)
            for k in range(n_inst):
                args = [arg_for(p) for p in t["params"]]
                if any(a is None for a in args):
                    continue
                if partial and r.random() < 0.35 and t["params"][0]["kind"] == "cint":
                    # partial instantiation: first parameter stays free, the rest is bound; then bind the first one
                    qn = "Q%s_%d" % (t["name"], k)
                    # the formal of the partial instantiation may carry the name of the parameter it is forwarded to
                    zn = t["params"][0]["name"] if rich_edges and r.random() < 0.4 else "z"
                    qp = {"name": zn, "type": ("const", ("int",)), "ref": False, "kind": "cint"}
                    m["insts"].append({"name": qn, "params": [qp], "templ": t["name"], "args": [("id", zn)] + args[1:]})
                    nm = "R%s_%d" % (t["name"], k)
                    m["insts"].append({"name": nm, "params": [], "templ": qn, "args": [self.lit(0, 9)]})
                    procs.append(nm)
                else:
                    nm = "A%s_%d" % (t["name"], k)
                    m["insts"].append({"name": nm, "params": [], "templ": t["name"], "args": args})
                    procs.append(nm)
        if not procs:
            # make sure the system is not empty
            t = [x for x in m["templates"] if not x.get("dynamic")][0]
            if t["params"]:
                t["params"] = []
                # drop uses of parameters: regenerate would be simpler; instead start over
                return self.model(priorities, branchpoints, params=False, partial=partial, dynamic=dynamic, kwnames=kwnames,
                                  rich_edges=rich_edges)
            procs.append(t["name"])
        if r.random() < 0.3:
            qs = []
            for _ in range(r.randint(1, 3)):
                q = {"formula": r.choice(["A[] not deadlock", "E<> g0 > 1", "A[] g0 >= 0", "", "E<> true", "A<> g0 == 1"]),
                     "comment": r.choice(["", "a comment", "EXPECT: T"])}
                if r.random() < 0.5:
                    q["options"] = [("--diagnostic", "0")] + ([("--search-order", "1")] if r.random() < 0.5 else [])
                if r.random() < 0.5:
                    q["expect"] = {"outcome": r.choice(["success", "failure", "maybe_true", "error"]), "type": r.choice(["quality", "probability", "value"]),
                                   "value": r.choice(["true", "0.5", "7", ""]),
                                   "resources": [("time", "1.5", "s")] + ([("memory", "1024", "KiB")] if r.random() < 0.5 else [])}
                if r.random() < 0.3:
                    q["results"] = [("success", "quality", "true")]
                qs.append(q)
            m["queries"] = qs
            if r.random() < 0.4:
                m["model_options"] = [("--statespace-consumption", "0")]
        r.shuffle(procs)
        use_prio = priorities if priorities is not None else (r.random() < 0.25)
        if use_prio and len(procs) > 1:
            cut = sorted(r.sample(range(1, len(procs)), r.randint(1, min(2, len(procs) - 1))))
            groups, prev = [], 0
            for c in cut + [len(procs)]:
                groups.append(procs[prev:c])
                prev = c
            m["system"] = groups
        else:
            m["system"] = [procs]
        return m
