"""Shared hostile workloads (used by C01, C08 and others): cases built from generators and fault injectors."""
import glob
import os
import re

from . import build, faults, gen_model as GM
from .runner import Case, Step
from .xmlgen import esc

_TEXT_BLOCK = re.compile(r"(<(declaration|parameter|system|label[^>]*|formula)>)([^<]*)(</)")


def test_models():
    out = []
    for f in sorted(glob.glob(os.path.join(build.REPO, "test", "models", "*.xml"))):
        out.append((os.path.basename(f), open(f, "rb").read().decode("utf-8", "replace")))
    return out


def unescape(s):
    return s.replace("&lt;", "<").replace("&gt;", ">").replace("&amp;", "&")


def mutate_text_block(xml, rng, n=1):
    """Token-level fault inside one text block of an XML model; returns (xml, description) or (xml, None)."""
    blocks = [m for m in _TEXT_BLOCK.finditer(xml) if m.group(3).strip()]
    if not blocks:
        return xml, None
    b = rng.choice(blocks)
    new, desc = faults.token_faults(unescape(b.group(3)), rng, n)
    return xml[:b.start(3)] + esc(new) + xml[b.end(3):], "%s:%s" % (b.group(2).split()[0], "+".join(desc))


def hostile_models(rng, n, big=False):
    """Yields (tag, xml text, expectation class) for n hostile inputs derived from valid models."""
    mg = GM.ModelGen(rng, 3, 5, 8) if not big else GM.ModelGen(rng, 5, 10, 20)
    tm = test_models()
    out = []
    for i in range(n):
        r = rng.random()
        if r < 0.12 and tm:
            name, base = rng.choice(tm)
        else:
            name, base = "gen", GM.render_xml(mg.model(), rng)
        x = rng.random()
        if x < 0.30:
            m2, d = faults.model_faults(mg.model(), rng)
            out.append(("semantic:" + d, GM.render_xml(m2, rng)))
        elif x < 0.60:
            xml, d = faults.xml_faults(base, rng, rng.choice([1, 1, 1, 2, 3]))
            out.append(("xml:" + (d[0].split()[0] if d else "none"), xml))
        elif x < 0.92:
            xml, d = mutate_text_block(base, rng, rng.choice([1, 1, 2]))
            out.append(("token:" + (d or "none").split(":")[0], xml))
        else:
            out.append(("valid:" + name, base))
    return out
