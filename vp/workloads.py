"""Shared hostile workloads (used by C01, C08 and others): cases built from generators and fault injectors."""
import glob
import os
import re

from . import build, faults, gen_model as GM
from .runner import Case, Step
from .xmlgen import esc

_TEXT_BLOCK = re.compile(r"(<(declaration|parameter|system|label[^>]*|formula)>)([^<]*)(</)")


def test_models():
    out = []
    for f in sorted(glob.glob(os.path.join(build.REPO, "test", "models", "*.xml"))):
        out.append((os.path.basename(f), open(f, "rb").read().decode("utf-8", "replace")))
    return out


def unescape(s):
    return s.replace("&lt;", "<").replace("&gt;", ">").replace("&amp;", "&")


def mutate_text_block(xml, rng, n=1):
    """Token-level fault inside one text block of an XML model; returns (xml, description) or (xml, None)."""
    blocks = [m for m in _TEXT_BLOCK.finditer(xml) if m.group(3).strip()]
    if not blocks:
        return xml, None
    b = rng.choice(blocks)
    new, desc = faults.token_faults(unescape(b.group(3)), rng, n)
    return xml[:b.start(3)] + esc(new) + xml[b.end(3):], "%s:%s" % (b.group(2).split()[0], "+".join(desc))


def hostile_models(rng, n, big=False):
    """Yields (tag, xml text, expectation class) for n hostile inputs derived from valid models."""
    mg = GM.ModelGen(rng, 3, 5, 8) if not big else GM.ModelGen(rng, 5, 10, 20)
    tm = test_models()
    out = []
    for i in range(n):
        r = rng.random()
        if r < 0.12 and tm:
            name, base = rng.choice(tm)
        else:
            name, base = "gen", GM.render_xml(mg.model(rich_edges=rng.random() < 0.5, dynamic=rng.random() < 0.3), rng, cdata=rng.choice([False, False, "whole"]))
        x = rng.random()
        if x < 0.30:
            m2, d = faults.model_faults(mg.model(rich_edges=rng.random() < 0.5), rng)
            out.append(("semantic:" + d, GM.render_xml(m2, rng)))
        elif x < 0.60:
            xml, d = faults.xml_faults(base, rng, rng.choice([1, 1, 1, 2, 3]))
            out.append(("xml:" + (d[0].split()[0] if d else "none"), xml))
        elif x < 0.92:
            xml, d = mutate_text_block(base, rng, rng.choice([1, 1, 2]))
            out.append(("token:" + (d or "none").split(":")[0], xml))
        else:
            out.append(("valid:" + name, base))
    return out


def systematic_dom_faults(xml, rng):
    """Every element occurrence x {empty form, removed, duplicated, nested in itself, text removed} and every attribute
    occurrence x {removed, emptied, duplicated}: the faults byte fuzzing reaches slowly."""
    out = []
    for m in faults.tags(xml):
        if m.group(1):
            continue
        name = m.group(2)
        sp = faults.element_span(xml, m)
        if sp:
            s, e = sp
            el = xml[s:e]
            out.append(("dom:empty:" + name, xml[:s] + "<%s%s/>" % (name, m.group(3)) + xml[e:]))
            out.append(("dom:remove:" + name, xml[:s] + xml[e:]))
            out.append(("dom:duplicate:" + name, xml[:e] + el + xml[e:]))
            if not m.group(4):
                out.append(("dom:nest:" + name, xml[:m.end()] + el + xml[m.end():]))
                inner_end = el.rfind("</")
                if inner_end > 0:
                    out.append(("dom:notext:" + name, xml[:m.end()] + xml[s + inner_end:]))
                    out.append(("dom:open-close:" + name, xml[:s] + "<%s%s></%s>" % (name, m.group(3), name) + xml[e:]))
        for a in faults._ATTR.finditer(m.group(3)):
            base = m.start(3)
            s, e = base + a.start(), base + a.end()
            out.append(("dom:rm-attr:%s@%s" % (name, a.group(1)), xml[:s] + xml[e:]))
            out.append(("dom:empty-attr:%s@%s" % (name, a.group(1)), xml[:s] + ' %s=""' % a.group(1) + xml[e:]))
    return out


RICH_QUERIES = ("<queries><option key=\"--a\" value=\"1\"/><query><formula>A[] not deadlock</formula><comment>c</comment>"
                "<option key=\"--diagnostic\" value=\"0\"/><expect outcome=\"success\" type=\"quality\" value=\"true\">"
                "<resource type=\"time\" value=\"1\" unit=\"s\"/></expect><result outcome=\"success\" type=\"quality\" "
                "value=\"true\" timestamp=\"t\"><option key=\"k\" value=\"v\"/></result></query><query><formula>E&lt;&gt; true</formula>"
                "<comment/></query></queries>")


# ---- dynamic templates (spawn / exit / numOf / quantification over processes): a part of the grammar and of the
# builders that ordinary models never touch
def dynamic_models(rng, n):
    """(tag, xml) pairs: a model with a dynamic template declaration/definition pair and one use of a dynamic feature in
    a label, function or query; parameter lists of declaration and definition agree or deliberately disagree."""
    from . import xmlgen
    decl_params = ["int p", "", "int p, int q", "bool p", "const int p", "int &p", "int p, int q, int r", "clock &c", "int p[2]"]
    uses = [("guard", "sum (q : D) q.x > 2"), ("guard", "(sum (q : D) q.x) > 2"), ("guard", "forall (q : D) (q.x > 2)"),
            ("guard", "exists (q : D) (q.x > 2)"), ("guard", "forall (q : D) q.x > 2"), ("guard", "forall (q : D) (q.DA)"),
            ("guard", "numOf(D) > 1"), ("guard", "numOf(n) > 1"), ("guard", "forall (q : E) (q.x > 2)"),
            ("guard", "forall (q : D) (r.x > 2)"), ("guard", "exists (q : D) (forall (r : D) (q.x > r.x))"),
            ("guard", "(sum (q : D) q).x > 1"), ("guard", "forall (q : D) (q.nosuch)"), ("guard", "forall (q : n) (q.x > 0)"),
            ("assignment", "spawn D(1)"), ("assignment", "n = spawn D(1)"), ("assignment", "spawn D(1, 2)"),
            ("assignment", "spawn D()"), ("assignment", "spawn E(1)"), ("assignment", "spawn n(1)"), ("assignment", "exit()"),
            ("assignment", "foreach (q : D) q.x = 1"), ("assignment", "n = numOf(D)"), ("assignment", "n = sum (q : D) q.x"),
            ("invariant", "c <= sum (q : D) q.x"), ("invariant", "forall (q : D) (q.cx <= 5)"),
            ("guard", "sum (q : D) (q.cx <= 5)"), ("guard", "(sum (q : D) (q.cx <= 5)) > 0"), ("invariant", "sum (q : D) (q.cx <= 5 && c <= 3)"),
            ("guard", "exists (q : D) (q.cx - c < 2)"), ("assignment", "n = sum (q : D) (q.cx > 1)"), ("guard", "forall (q : D) (q.cx' == 1)"),
            ("query", "simulate [<=10] { sum (q : D) (q.cx <= 5) }"), ("query", "E<> (sum (q : D) (q.cx <= 5)) > 1"),
            ("query", "A[] forall (q : D) (q.cx <= 5 imply q.DA)"), ("guard", "forall (q : D) (forall (q : D) (q.x > 0))"),
            ("query", "A[] forall (q : D) q.x > 2"), ("query", "A[] forall (q : D) (q.x > 2)"), ("query", "E<> exists (q : D) (q.DA)"),
            ("query", "A[] (sum (q : D) q.x) > 2"), ("query", "E<> numOf(D) > 2"), ("query", "Pr ( <>[0,5] forall (q : D)(q.x > 2) )"),
            ("query", "Pr ( [][0,5] exists (q : D)(q.DA) )"), ("query", "A[] forall (q : D) (q.x > 2 && exists (r : D) (r.x < q.x))"),
            ("query", "A[] numOf(P) > 0"), ("query", "simulate [<=10] { numOf(D), sum (q : D) q.x }"),
            ("dfunc", "void g() { spawn D(1); exit(); }"), ("dfunc", "int h() { return numOf(D) + (sum (q : D) q.x); }"),
            ("tfunc", "void bye() { exit(); }"), ("tfunc", "void more() { spawn D(x); }")]
    out = []
    for i in range(n):
        kind, text = rng.choice(uses)
        # most models are consistent apart from the one use under test, so that it reaches the type checker and the
        # feature checker; the others also vary the declaration / definition pair
        clean = rng.random() < 0.6
        dp = rng.choice(decl_params[:5] if clean else decl_params)
        tp = dp if clean or rng.random() < 0.7 else rng.choice(decl_params)
        if rng.random() < (0.1 if clean else 0.25):
            text, _ = faults.token_faults(text, rng, 1)
        gdecl = "int n; clock c;\n"
        order = rng.random() * (0.85 if clean else 1.0)
        if order < 0.85:
            gdecl = "dynamic D(%s);\n" % dp + gdecl
        if order > 0.95:
            gdecl += "dynamic D(%s);\ndynamic D(%s);\n" % (dp, tp)
        if kind == "dfunc":
            gdecl += text + "\n"
        labs, inv, q, tdecl = [], None, "", "int x; clock cx;"
        if kind in ("guard", "assignment"):
            labs.append((kind, text))
        elif kind == "invariant":
            inv = text
        elif kind == "query":
            q = xmlgen.queries_xml([text])
        elif kind == "tfunc":
            tdecl += "\n" + text
        dtempl = ('<template><name>D</name>%s<declaration>%s</declaration><location id="d0"><name>DA</name></location>'
                  '<init ref="d0"/><transition><source ref="d0"/><target ref="d0"/><label kind="assignment">%s</label>'
                  '</transition></template>') % ("<parameter>%s</parameter>" % xmlgen.esc(tp) if tp else "", xmlgen.esc(tdecl),
                                                  rng.choice(["x = 1", "exit()", "spawn D(1)", "x = numOf(D)"]))
        main_first = clean or rng.random() < 0.3      # (the defining template has to come first to be usable)
        xml = xmlgen.simple_model(decl=gdecl, locations=[("id0", "A", [("invariant", inv)] if inv else [], None)],
                                  edges=[("id0", "id0", labs)], extra_templates=dtempl, queries=q)
        if main_first:
            # the defining template in front of the template that uses it
            a = xml.index("<template>")
            b = xml.index("</template>") + len("</template>")
            xml = xml[:a] + dtempl + xml[a:b] + xml[b:].replace(dtempl, "", 1)
        out.append(("dynamic:" + kind, xml))
    return out
