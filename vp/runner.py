"""Runs cases through the fork-isolated driver (harness/driver.cpp) on up to 16 worker processes."""
import json
import os
import re
import subprocess
import sys
import tempfile
import time
from concurrent.futures import ThreadPoolExecutor

from . import build

VERIF = build.VERIF
WORK = os.path.join(VERIF, ".work")
DRIVER_SOURCES = ["driver.cpp", "dump.cpp", "invariants.cpp", "laws.cpp"]

SAN_ENV = {
    "ASAN_OPTIONS": "abort_on_error=1:detect_leaks=0:allocator_may_return_null=1:handle_abort=1:"
                    "symbolize=1:max_malloc_fill_size=0:malloc_context_size=8",
    "UBSAN_OPTIONS": "print_stacktrace=1:halt_on_error=1:abort_on_error=1",
    "UTAP_VERIF_NO_DLOPEN": "1",
    "LC_ALL": "C",
}


class Step:
    __slots__ = ("op", "args")

    def __init__(self, op, *args):
        self.op = op
        self.args = [a if isinstance(a, (bytes, bytearray)) else str(a).encode("utf-8", "surrogateescape")
                     for a in args]


class Case:
    __slots__ = ("id", "steps", "timeout", "meta")

    def __init__(self, cid, steps, timeout=30, meta=None):
        self.id = cid
        self.steps = steps
        self.timeout = timeout
        self.meta = meta

    def serialize(self):
        out = [b"CASE %s %d %d\n" % (self.id.encode(), self.timeout, len(self.steps))]
        for s in self.steps:
            out.append(b"STEP %s %d\n" % (s.op.encode(), len(s.args)))
            for a in s.args:
                out.append(b"%d\n" % len(a))
                out.append(bytes(a))
                out.append(b"\n")
        return b"".join(out)

    def to_json(self):
        """Replayable description (latin-1 keeps bytes intact)."""
        return {"id": self.id, "timeout": self.timeout,
                "steps": [{"op": s.op, "args": [a.decode("latin-1") for a in s.args]} for s in self.steps]}

    @staticmethod
    def from_json(d):
        return Case(d["id"], [Step(s["op"], *[a.encode("latin-1") for a in s["args"]]) for s in d["steps"]],
                    d.get("timeout", 30))


def driver_path(variant="asan"):
    srcs = DRIVER_SOURCES + (["steps.cpp"] if variant == "steps" else [])
    return build.build_harness(variant, "driver", srcs)


class HarnessFailure(Exception):
    pass


def _run_chunk(exe, chunk, workdir, env, stack_mb=None, wrapper=()):
    data = b"".join(c.serialize() for c in chunk)
    pre = None
    if stack_mb:
        import resource

        def pre():
            lim = stack_mb * 1024 * 1024
            resource.setrlimit(resource.RLIMIT_STACK, (lim, lim))
    wrapper = [w.replace("{workdir}", workdir) for w in wrapper]
    p = subprocess.run(list(wrapper) + [exe, workdir], input=data, stdout=subprocess.PIPE, stderr=subprocess.PIPE, env=env,
                       preexec_fn=pre)
    res = {}
    for line in p.stdout.split(b"\n"):
        if not line.strip():
            continue
        try:
            r = json.loads(line.decode("utf-8", "replace"))
        except ValueError as e:
            raise HarnessFailure("driver produced unparsable output: %r ... (%s)" % (line[:300], e))
        res[r["id"]] = r
        if wrapper and "pid" in r:
            # tool reports (valgrind --log-file={workdir}/vg.%p) of the forked child belong to the case
            try:
                with open(os.path.join(workdir, "vg.%d" % r["pid"]), "rb") as f:
                    r["stderr"] = r.get("stderr", "") + f.read(200000).decode("utf-8", "replace")
            except OSError:
                pass
    if p.returncode != 0 or len(res) != len(chunk):
        missing = [c.id for c in chunk if c.id not in res]
        raise HarnessFailure("driver exited %s, %d/%d results, first missing %s; stderr: %s" % (
            p.returncode, len(res), len(chunk), missing[:1], p.stderr.decode("utf-8", "replace")[-2000:]))
    return res


def run_cases(cases, variant="asan", jobs=16, chunk_size=None, stack_mb=None, wrapper=()):
    """Returns {case id: result dict}.  Raises HarnessFailure if a driver process dies outside a case."""
    if not cases:
        return {}
    if os.environ.get("VERIF_COV") and variant in ("asan", "asan-assert"):
        variant = "cov"         # tools/coverage.py: same workloads, gcov-instrumented library, verdicts ignored
    exe = driver_path(variant)
    os.makedirs(WORK, exist_ok=True)
    workdir = tempfile.mkdtemp(prefix="run.", dir=WORK)
    env = dict(os.environ)
    env.update(SAN_ENV)
    if chunk_size is None:
        chunk_size = max(1, min(200, (len(cases) + jobs * 4 - 1) // (jobs * 4)))
    chunks = [cases[i:i + chunk_size] for i in range(0, len(cases), chunk_size)]
    results = {}
    try:
        with ThreadPoolExecutor(max_workers=jobs) as ex:
            for r in ex.map(lambda ch: _run_chunk(exe, ch, workdir, env, stack_mb, wrapper), chunks):
                results.update(r)
    finally:
        subprocess.run(["rm", "-rf", workdir])
    return results


# ------------------------------------------------------------------------------------------------------------
# classification of crashes (shared by all checks; every such event is a C01 matter)

_FRAME = re.compile(r"^\s*#\d+\s+0x[0-9a-f]+\s+in\s+(.+?)\s+(\S+?)(?::\d+)*\s*$", re.M)
_FRAME2 = re.compile(r"^\s*#\d+\s+0x[0-9a-f]+\s+in\s+(.+?)\s*(?:\(|$)", re.M)


def _strip_fn(fn):
    fn = re.sub(r"\(.*$", "", fn)          # drop the parameter list
    fn = re.sub(r"<[^<>]*>", "", fn)
    fn = re.sub(r"<[^<>]*>", "", fn)
    fn = re.sub(r"\[abi:[^\]]*\]", "", fn)
    return fn.strip()


def crash_site(stderr_text):
    """Innermost two frames that lie in the repository's sources (by function name, no line numbers)."""
    frames = []
    for m in re.finditer(r"^\s*#\d+\s+0x[0-9a-f]+\s+in\s+(.+?)\s+(/\S+)\s*$", stderr_text, re.M):
        fn, loc = m.group(1), m.group(2)
        if "/src/" in loc or "/include/utap/" in loc or "parser.y" in loc or "lexer.l" in loc or \
                "parser.cpp" in loc or "lexer.cc" in loc:
            if "/harness/" in loc:
                continue
            frames.append(_strip_fn(fn))
        if len(frames) >= 2:
            break
    return ">".join(frames) if frames else "noframe"


def crash_kind(res):
    """None if the child finished normally; otherwise a short class name of the event."""
    st = res["status"]
    err = res.get("stderr", "")
    if st == "ok":
        return None
    if st == "timeout":
        return "timeout"
    if "runtime error:" in err:
        m = re.search(r"runtime error: ([^\n]{0,60})", err)
        msg = re.sub(r"0x[0-9a-f]+|\d+", "N", m.group(1)) if m else ""
        msg = re.sub(r"'[^']*'", "T", msg)
        return "ubsan:" + msg.strip().replace(" ", "_")[:50]
    if "Assertion" in err and "failed" in err:
        m = re.search(r"Assertion [`'](.{0,80}?)' failed", err)
        pre = err.split("Assertion")[0][-400:]
        if "/c++/" in pre or "bits/stl_" in pre:
            return "glibcxx-assert"
        return "assert:" + (re.sub(r"\s+", "_", m.group(1))[:60] if m else "?")
    if "AddressSanitizer" in err and "AddressSanitizer: ABRT" not in err:
        m = re.search(r"AddressSanitizer: ([a-zA-Z\-_]+)", err)
        k = m.group(1) if m else "asan"
        if k == "SEGV":
            k = "SEGV-null" if re.search(r"address 0x0000000000[0-9a-f]{2}\b", err) or "address points to the zero page" in err else "SEGV"
        return "asan:" + k
    if "terminate called" in err:
        m = re.search(r"terminate called after throwing an instance of '([^']+)'", err)
        return "terminate:" + (m.group(1) if m else "?")
    if st == "signal":
        return "signal:%d" % res["code"]
    return "exit:%d" % res["code"]


def assert_site(stderr_text):
    m = re.search(r"(\S+?):(\d+): (.+?): Assertion", stderr_text)
    if m:
        fn = _strip_fn(re.sub(r"^.*? ([\w:~]+)\(.*$", r"\1", m.group(3)))
        return os.path.basename(m.group(1)) + ":" + fn
    return "noframe"
