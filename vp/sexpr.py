"""Parser and structural diff for the driver's S-expression dumps."""


def parse(text):
    """'(KIND atom (child ...))' -> ['KIND', 'atom', ['child', ...]];  '<...>' type texts and "strings" are atoms."""
    pos = 0
    n = len(text)

    def skip():
        nonlocal pos
        while pos < n and text[pos] == " ":
            pos += 1

    def atom():
        nonlocal pos
        start = pos
        if text[pos] == '"':
            pos += 1
            while pos < n and text[pos] != '"':
                if text[pos] == "\\":
                    pos += 1
                pos += 1
            pos += 1
            return text[start:pos]
        if text[pos] == "<":
            depth = 0
            while pos < n:
                ch = text[pos]
                if ch == "<":
                    depth += 1
                elif ch == ">":
                    depth -= 1
                    if depth == 0:
                        pos += 1
                        break
                pos += 1
            return text[start:pos]
        while pos < n and text[pos] not in " ()":
            pos += 1
        return text[start:pos]

    def node():
        nonlocal pos
        assert text[pos] == "("
        pos += 1
        out = []
        while True:
            skip()
            if pos >= n:
                return out
            if text[pos] == ")":
                pos += 1
                return out
            if text[pos] == "(":
                out.append(node())
            else:
                out.append(atom())

    skip()
    if pos >= n:
        return []
    if text[pos] != "(":
        return [atom()]
    return node()


ASSIGN_KINDS = {"ASSIGN", "ASS_PLUS", "ASS_MINUS", "ASS_MULT", "ASS_DIV", "ASS_MOD", "ASS_OR", "ASS_AND", "ASS_XOR",
                "ASS_LSHIFT", "ASS_RSHIFT"}


def kind(node):
    if not node:
        return "EMPTY"
    k = node[0] if isinstance(node[0], str) else "?"
    return "ASSIGNOP" if k in ASSIGN_KINDS else k


def children(node):
    return [c for c in node[1:] if isinstance(c, list) and (not c or c[0] != "bind")]


def attrs(node):
    return [c for c in node[1:] if not isinstance(c, list)] + [c for c in node[1:] if isinstance(c, list) and c and c[0] == "bind"]


def first_diff(exp, got):
    """Key describing the first node (pre-order) where the two trees differ, or None if equal."""
    if exp == got:
        return None
    ke, kg = kind(exp), kind(got)
    ce, cg = children(exp), children(got)
    raw_e = exp[0] if exp else None
    raw_g = got[0] if got else None
    if raw_e != raw_g or len(ce) != len(cg):
        rot = "-"
        for i, c in enumerate(ce):
            if c and got and c[0] == got[0]:
                rot = str(i)
                break
        return "exp=%s,got=%s,rot=%s" % (ke, kg, rot)
    if attrs(exp) != attrs(got):
        return "attr:%s" % ke
    for a, b in zip(ce, cg):
        d = first_diff(a, b)
        if d:
            return d
    return "exp=%s,got=%s,rot=?" % (ke, kg)


def triples(node, out):
    """(parent kind, child kind, position) triples of a parsed dump."""
    if not node or not isinstance(node, list):
        return
    cs = children(node)
    for i, c in enumerate(cs):
        if c:
            out.add((node[0], c[0], i))
        triples(c, out)


def count_nodes(node):
    if not isinstance(node, list) or not node:
        return 0
    return 1 + sum(count_nodes(c) for c in children(node))
