"""Run many expression / query texts against one model, batched per child process, with single-item fallback so a
crash is attributed to the text that caused it."""
from .runner import Case, Step, run_cases


def _mk_case(cid, model, entry, op_step):
    return Case(cid, [Step("parse_doc", 0, entry, 1, 0, model), op_step], timeout=60)


def run_exprs(texts, model, scope="global", part="S_EXPRESSION", flags="", batch=40, variant="asan", newxta=1,
              entry="xml_buffer", tag="e"):
    """Returns a list parallel to texts: (result dict | None, case, crash result | None)."""
    cases = []
    spans = []
    for b in range(0, len(texts), batch):
        chunk = texts[b:b + batch]
        c = _mk_case("%s%d" % (tag, b), model, entry, Step("exprs", 0, scope, newxta, part, flags, *chunk))
        cases.append(c)
        spans.append((b, len(chunk), c))
    res = run_cases(cases, variant=variant)
    out = [None] * len(texts)
    redo = []
    for b, n, c in spans:
        r = res[c.id]
        ok = r["status"] == "ok" and len(r["steps"]) == 2 and "results" in r["steps"][1] and \
            len(r["steps"][1]["results"]) == n
        if ok:
            for i in range(n):
                out[b + i] = (r["steps"][1]["results"][i], c, None)
        else:
            for i in range(n):
                redo.append(b + i)
    if redo:
        singles = []
        for i in redo:
            singles.append(_mk_case("%ss%d" % (tag, i), model, entry,
                                    Step("exprs", 0, scope, newxta, part, flags, texts[i])))
        res2 = run_cases(singles, variant=variant)
        for i, c in zip(redo, singles):
            r = res2[c.id]
            if r["status"] == "ok" and len(r["steps"]) == 2 and r["steps"][1].get("results"):
                out[i] = (r["steps"][1]["results"][0], c, None)
            else:
                out[i] = (None, c, r)
    return out


def run_queries(texts, model, flags="r", batch=25, variant="asan", entry="xml_buffer", tag="q"):
    cases = []
    spans = []
    for b in range(0, len(texts), batch):
        chunk = texts[b:b + batch]
        c = _mk_case("%s%d" % (tag, b), model, entry, Step("query", 0, flags, *chunk))
        cases.append(c)
        spans.append((b, len(chunk), c))
    res = run_cases(cases, variant=variant)
    out = [None] * len(texts)
    redo = []
    for b, n, c in spans:
        r = res[c.id]
        ok = r["status"] == "ok" and len(r["steps"]) == 2 and "results" in r["steps"][1] and \
            len(r["steps"][1]["results"]) == n
        if ok:
            for i in range(n):
                out[b + i] = (r["steps"][1]["results"][i], c, None)
        else:
            redo.extend(range(b, b + n))
    if redo:
        singles = [_mk_case("%ss%d" % (tag, i), model, entry, Step("query", 0, flags, texts[i])) for i in redo]
        res2 = run_cases(singles, variant=variant)
        for i, c in zip(redo, singles):
            r = res2[c.id]
            if r["status"] == "ok" and len(r["steps"]) == 2 and r["steps"][1].get("results"):
                out[i] = (r["steps"][1]["results"][0], c, None)
            else:
                out[i] = (None, c, r)
    return out
